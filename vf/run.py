"""Shared runner: tiers, seeds, sharding, known-finding attribution, replay, evidence."""
from __future__ import annotations

import collections
import copy
import fnmatch
import importlib
import json
import multiprocessing as mp
import os
import sys
import time
import traceback

from .strict import h64, short

ROOT = os.path.dirname(os.path.dirname(os.path.abspath(__file__)))
NPROC = int(os.environ.get("VERIF_NPROC", "16"))
MAX_SAMPLES = 12
MAX_STORED_PER_SIG = 12


# ----------------------------------------------------------------------------- stats


class Stats:
    """What one task measured.  Picklable, mergeable."""

    def __init__(self):
        self.evaluations = 0
        self.nontrivial = set()
        self.classes = collections.Counter()
        self.samples = []
        self.failures = {}  # sig -> [count, [failure dicts]]
        self.excluded = collections.Counter()
        self.subspaces = []  # {"name","size","exhaustive"}
        self.generated = 0
        self.budget_exhausted = False
        self.notes = []

    def case(self, n=1):
        self.generated += n

    def ev(self, n=1):
        self.evaluations += n

    def nt(self, *key):
        self.nontrivial.add(h64(*key))

    def cls(self, *names):
        for n in names:
            self.classes[n] += 1

    def sample(self, s):
        if len(self.samples) < MAX_SAMPLES:
            self.samples.append(s)

    def fail(self, sig, case, detail=""):
        ent = self.failures.setdefault(sig, [0, []])
        ent[0] += 1
        if len(ent[1]) < MAX_STORED_PER_SIG:
            ent[1].append({"signature": sig, "case": case, "detail": short(detail, 2000)})
        else:
            # keep the smallest ones
            size = len(json.dumps(case, default=repr))
            big = max(range(len(ent[1])), key=lambda i: len(json.dumps(ent[1][i]["case"], default=repr)))
            if size < len(json.dumps(ent[1][big]["case"], default=repr)):
                ent[1][big] = {"signature": sig, "case": case, "detail": short(detail, 2000)}

    def merge(self, o: "Stats"):
        self.evaluations += o.evaluations
        self.generated += o.generated
        self.nontrivial |= o.nontrivial
        self.classes.update(o.classes)
        self.excluded.update(o.excluded)
        self.subspaces.extend(o.subspaces)
        self.notes.extend(o.notes)
        self.budget_exhausted |= o.budget_exhausted
        for s in o.samples[:2]:
            if len(self.samples) < MAX_SAMPLES + 12:
                self.samples.append(s)
        for sig, (n, fs) in o.failures.items():
            ent = self.failures.setdefault(sig, [0, []])
            ent[0] += n
            ent[1].extend(fs)
            ent[1].sort(key=lambda f: len(json.dumps(f["case"], default=repr)))
            del ent[1][MAX_STORED_PER_SIG:]


# ----------------------------------------------------------------------------- seeds, hypothesis


def mix(seed: int, *parts) -> int:
    return h64("seed", str(seed), *[str(p) for p in parts]) & 0x7FFFFFFFFFFFFFFF


def lib_origin(exc):
    """'file:function' if the innermost frame of `exc` is inside the library under test, else None."""
    tb = exc.__traceback__
    last = None
    while tb is not None:
        last = tb
        tb = tb.tb_next
    if last is None:
        return None
    fn = last.tb_frame.f_code.co_filename
    if "/jsonpath/" in fn and "/verif/" not in fn:
        return "%s:%s" % (fn.split("/jsonpath/", 1)[1], last.tb_frame.f_code.co_name)
    return None


_EX = [0, 0]


def rng_for(s):
    """A Random for the current generated example.  Hypothesis draws small and repeated integers on purpose,
    so the drawn seed `s` alone gives poor diversity: mix it with the task seed and the example counter
    (both deterministic under VERIF_SEED)."""
    import random
    return random.Random(mix(_EX[0], _EX[1], s))


def deadline_passed() -> bool:
    d = float(os.environ.get("VF_DEADLINE", "0") or 0)
    return bool(d) and time.time() > d


def hyp_run(strategy, body, n, seed, stats=None, stateful=False):
    """Run `body(value)` on n examples drawn from `strategy` with a pinned seed.

    The body never raises for oracle failures (it records them in Stats), so Hypothesis is
    used as the generator; shrinking is done afterwards on the recorded case (vf.shrink).
    """
    import hypothesis
    from hypothesis import HealthCheck, Phase, given, settings

    class _Stop(BaseException):
        pass

    st = settings(
        max_examples=n,
        database=None,
        deadline=None,
        derandomize=False,
        report_multiple_bugs=False,
        suppress_health_check=list(HealthCheck),
        phases=[Phase.generate],
    )
    counter = [0]
    _EX[0] = seed

    @hypothesis.seed(seed)
    @st
    @given(strategy)
    def t(x):
        counter[0] += 1
        _EX[1] = counter[0]
        if counter[0] % 64 == 0 and deadline_passed():
            if stats is not None:
                stats.budget_exhausted = True
            raise _Stop()
        try:
            body(x)
        except _Stop:
            raise
        except Exception as e:  # noqa: BLE001
            # an exception thrown by the library where the check did not expect one is a finding,
            # not a harness error; anything raised by the harness's own code propagates (exit 2)
            site = lib_origin(e)
            if site is None or stats is None:
                raise
            stats.fail("lib-raised:%s@%s" % (type(e).__name__, site), {"unexpected": repr(x)[:2000]},
                       "%s: %s (input %s)" % (type(e).__name__, e, repr(x)[:300]))

    try:
        t()
    except _Stop:
        pass
    return counter[0]


def run_machine(machine_cls, n, steps, seed, stats=None):
    import hypothesis
    from hypothesis import HealthCheck, Phase, settings
    from hypothesis.stateful import run_state_machine_as_test

    st = settings(
        max_examples=n,
        stateful_step_count=steps,
        database=None,
        deadline=None,
        derandomize=False,
        report_multiple_bugs=False,
        suppress_health_check=list(HealthCheck),
        phases=[Phase.generate],
    )
    run_state_machine_as_test(hypothesis.seed(seed)(machine_cls), settings=st)


# ----------------------------------------------------------------------------- known findings


def load_findings(prop):
    known, fixed = [], []
    path = os.path.join(ROOT, "KNOWN_FINDINGS.txt")
    if not os.path.exists(path):
        return known, fixed
    for line in open(path, encoding="utf-8"):
        line = line.rstrip("\n")
        if line.startswith("known:"):
            body = line[len("known:"):].strip()
            head, _, desc = body.partition("::")
            fields = dict(f.split("=", 1) for f in head.split() if "=" in f)
            if fields.get("property") == prop and "key" in fields:
                known.append((fields["key"], desc.strip()))
        elif line.startswith("fixed:"):
            if ("property=" + prop) in line:
                fixed.append(line)
    return known, fixed


def attribute(sig, known):
    for key, desc in known:
        if sig == key or fnmatch.fnmatchcase(sig, key):
            return key, desc
    return None


# ----------------------------------------------------------------------------- shrinking


def _edits(v):
    """Smaller variants of a JSON-like value (generic structural shrink)."""
    if isinstance(v, list):
        for i in range(len(v)):
            yield v[:i] + v[i + 1:]
        for x in v:
            if isinstance(x, (list, dict)):
                yield x
    elif isinstance(v, dict):
        for k in list(v):
            d = dict(v)
            del d[k]
            yield d
        for k, x in v.items():
            if isinstance(x, (list, dict)):
                yield x
    elif isinstance(v, str):
        if len(v) > 1:
            yield v[: len(v) // 2]
            yield v[1:]
            yield v[:-1]
        if v not in ("", "a"):
            yield "a"
    elif isinstance(v, bool):
        return
    elif isinstance(v, int):
        if v not in (0, 1):
            yield 0
            yield 1
            if abs(v) > 3:
                yield v // 2
    elif isinstance(v, float):
        if v != 0.0:
            yield 0.0
        if v != 1.5:
            yield 1.5


def _subst(root, path, new):
    if not path:
        return new
    root = copy.copy(root)
    k = path[0]
    root[k] = _subst(root[k], path[1:], new)
    return root


def _paths(v, path=()):
    yield path
    if isinstance(v, list):
        for i, x in enumerate(v):
            yield from _paths(x, path + (i,))
    elif isinstance(v, dict):
        for k, x in v.items():
            yield from _paths(x, path + (k,))


def _get(v, path):
    for k in path:
        v = v[k]
    return v


def shrink_value(value, pred, budget_s=20.0, max_steps=4000):
    """Greedy structural minimisation of `value` under `pred` (must stay true)."""
    t0 = time.time()
    steps = 0
    improved = True
    while improved and time.time() - t0 < budget_s and steps < max_steps:
        improved = False
        for path in sorted(_paths(value), key=len):
            try:
                cur = _get(value, path)
            except (KeyError, IndexError, TypeError):
                continue
            for e in _edits(cur):
                steps += 1
                if time.time() - t0 > budget_s or steps > max_steps:
                    return value
                cand = _subst(value, list(path), e)
                try:
                    ok = pred(cand)
                except Exception:
                    ok = False
                if ok:
                    value = cand
                    improved = True
                    break
            if improved:
                break
    return value


# ----------------------------------------------------------------------------- task execution


def _exec_task(arg):
    modname, task = arg
    t0 = time.time()
    try:
        mod = importlib.import_module(modname)
        fn = getattr(mod, task["fn"])
        st = fn(**task.get("kw", {}))
        if st is None:
            st = Stats()
        st.notes.append({"task": task["name"], "wall_s": round(time.time() - t0, 2)})
        return ("ok", task["name"], st)
    except BaseException as e:  # harness error: report, never a VIOLATION
        site = lib_origin(e) if isinstance(e, Exception) else None
        if site is not None:
            st = Stats()
            st.fail("lib-raised:%s@%s" % (type(e).__name__, site), {"unexpected": task["name"]},
                    "task %s: %s" % (task["name"], traceback.format_exc()[-1500:]))
            return ("ok", task["name"], st)
        return ("err", task["name"], traceback.format_exc())


def _child(conn, modname, task):
    try:
        conn.send(_exec_task((modname, task)))
    except BaseException:  # noqa: BLE001
        try:
            conn.send(("err", task["name"], traceback.format_exc()))
        except Exception:  # noqa: BLE001
            pass
    finally:
        conn.close()


def run_tasks(modname, tasks, hard_limit_s):
    """One forked process per task, at most NPROC at a time.  A worker that dies without a result (for
    example killed by the faulthandler watchdog of a check that claims termination) is reported to the
    check module's `on_worker_death(pid, task)` hook, which may turn it into a recorded failure."""
    total = Stats()
    errors = []
    if not tasks:
        return total, errors
    mod = importlib.import_module(modname)
    if NPROC <= 1:
        for t in tasks:
            kind, name, res = _exec_task((modname, t))
            if kind == "ok":
                total.merge(res)
            else:
                errors.append((name, res))
        return total, errors
    ctx = mp.get_context("fork")
    queue = list(tasks)
    running = {}  # pid -> (process, conn, task, t_start)
    t_end = time.time() + hard_limit_s
    try:
        while queue or running:
            while queue and len(running) < NPROC:
                t = queue.pop(0)
                parent, child = ctx.Pipe(duplex=False)
                p = ctx.Process(target=_child, args=(child, modname, t))
                p.daemon = True
                p.start()
                child.close()
                running[p.pid] = (p, parent, t, time.time())
            done = []
            for pid, (p, conn, t, t0) in running.items():
                if conn.poll(0):
                    try:
                        kind, name, res = conn.recv()
                    except (EOFError, OSError):
                        kind, name, res = "dead", t["name"], None
                    done.append((pid, kind, name, res))
                elif not p.is_alive():
                    # finished between the two tests?
                    if conn.poll(0.2):
                        try:
                            kind, name, res = conn.recv()
                        except (EOFError, OSError):
                            kind, name, res = "dead", t["name"], None
                    else:
                        kind, name, res = "dead", t["name"], None
                    done.append((pid, kind, name, res))
            for pid, kind, name, res in done:
                p, conn, t, t0 = running.pop(pid)
                p.join(timeout=5)
                conn.close()
                if kind == "ok":
                    total.merge(res)
                elif kind == "err":
                    errors.append((name, res))
                else:
                    hook = getattr(mod, "on_worker_death", None)
                    st = hook(pid, t, p.exitcode) if hook else None
                    if isinstance(st, Stats):
                        total.merge(st)
                    else:
                        errors.append((name, "worker process %d died (exit code %s) without a result" % (pid, p.exitcode)))
            if time.time() > t_end and running:
                for pid, (p, conn, t, t0) in list(running.items()):
                    p.terminate()
                    total.budget_exhausted = True
                    total.notes.append({"task": t["name"], "stopped": "hard limit"})
                    running.pop(pid)
                queue = []
            if not done:
                time.sleep(0.05)
    finally:
        for pid, (p, conn, t, t0) in running.items():
            p.terminate()
    return total, errors


# ----------------------------------------------------------------------------- evidence


def write_evidence(prop, tier, seed, level, stats: Stats, rule, assumptions, wall, violations,
                   known_seen, extra=None):
    cov = {
        "evaluations": int(stats.evaluations),
        "distinct_nontrivial": int(len(stats.nontrivial)),
        "rule": rule,
        "samples": stats.samples[-MAX_SAMPLES:] or ["(no sample recorded)"],
        "generated_cases": int(stats.generated),
        "classes": dict(sorted(stats.classes.items(), key=lambda kv: (-kv[1], kv[0]))[:80]),
        "exhaustive_subspaces": stats.subspaces,
        "exhaustive": False,
        "excluded": dict(stats.excluded),
        "known_findings_reobserved": known_seen,
        "budget_exhausted": bool(stats.budget_exhausted),
        "tasks": stats.notes[:64],
    }
    if extra:
        cov.update(extra)
    ev = {
        "property_id": prop,
        "tier": tier,
        "seed": int(seed),
        "level": level,
        "coverage": cov,
        "assumptions": assumptions,
        "wall_s": round(wall, 2),
        "violations": int(violations),
    }
    os.makedirs(os.path.join(ROOT, "evidence"), exist_ok=True)
    path = os.path.join(ROOT, "evidence", prop + ".json")
    tmp = path + ".tmp"
    with open(tmp, "w", encoding="utf-8") as f:
        json.dump(ev, f, indent=1, ensure_ascii=True, default=repr)
        f.write("\n")
    os.replace(tmp, path)
    return path


# ----------------------------------------------------------------------------- main


def assert_tree():
    repo = os.environ.get("VERIF_REPO", "/repo")
    import jsonpath

    f = os.path.realpath(jsonpath.__file__)
    if not f.startswith(os.path.realpath(repo) + os.sep):
        print("HARNESS-ERROR: jsonpath imported from %s, expected under %s" % (f, repo))
        sys.exit(2)


def _replay_failures(mod, case):
    st = mod.replay(case)
    return st.failures if isinstance(st, Stats) else {}


def main(prop, tier, replay_path=None):
    import warnings
    warnings.simplefilter("ignore")  # e.g. re's FutureWarning on generated patterns
    for stream in (sys.stdout, sys.stderr):  # a failure detail may quote an unpaired surrogate: report it, do not die printing it
        try:
            stream.reconfigure(errors="backslashreplace")
        except Exception:  # noqa: BLE001
            pass
    t0 = time.time()
    assert_tree()
    modname = "vf.checks." + prop.lower()
    mod = importlib.import_module(modname)
    seed = int(os.environ.get("VERIF_SEED", "0") or 0)
    known, _fixed = load_findings(prop)

    if replay_path:
        blob = json.load(open(replay_path, encoding="utf-8"))
        case = blob["case"] if "case" in blob else blob
        fails = _replay_failures(mod, case)
        bad = 0
        for sig, (n, fs) in fails.items():
            att = attribute(sig, known)
            if att:
                print("KNOWN-FINDING: property=%s %s [key=%s]" % (prop, att[1], att[0]))
            else:
                bad += 1
                print("REPRODUCED signature=%s detail=%s" % (sig, fs[0]["detail"]))
                print("VIOLATION property=%s replay=%s" % (prop, replay_path))
        if not fails:
            print("replay: property holds on this case")
        return 1 if bad else 0

    budget = mod.BUDGET_S[tier] if hasattr(mod, "BUDGET_S") else {"quick": 90, "thorough": 900}[tier]
    budget = max(20, budget * float(os.environ.get("VF_BUDGET_SCALE", "1") or 1))  # smoke-testing a tier with a shorter budget
    os.environ["VF_DEADLINE"] = str(time.time() + budget)
    hard = budget * 2 + 60

    total = Stats()
    # tier 0: saved corpus, replayed without Hypothesis
    cdir = os.path.join(ROOT, "corpus", prop)
    ncorpus = 0
    if os.path.isdir(cdir):
        for fn in sorted(os.listdir(cdir)):
            if fn.endswith(".json"):
                blob = json.load(open(os.path.join(cdir, fn), encoding="utf-8"))
                st = mod.replay(blob["case"] if "case" in blob else blob)
                if isinstance(st, Stats):
                    total.merge(st)
                ncorpus += 1
    tasks = mod.tasks(tier, seed)
    st, errors = run_tasks(modname, tasks, hard)
    total.merge(st)
    if errors:
        for name, tb in errors:
            print("HARNESS-ERROR in task %s:\n%s" % (name, tb))
        return 2

    violations = 0
    known_seen = {}
    new_sigs = []
    for sig, (n, fs) in sorted(total.failures.items()):
        att = attribute(sig, known)
        if att:
            k = known_seen.setdefault(att[0], {"desc": att[1], "cases": 0})
            k["cases"] += n
        else:
            new_sigs.append((sig, n, fs))
    for key, info in known_seen.items():
        print("KNOWN-FINDING: property=%s %s (%d cases, key=%s)" % (prop, info["desc"], info["cases"], key))

    rdir = os.path.join(ROOT, "replays", prop)
    import shutil
    shutil.rmtree(rdir, ignore_errors=True)  # replay files of earlier runs
    for sig, n, fs in new_sigs[:10]:
        violations += 1
        f0 = min(fs, key=lambda f: len(json.dumps(f["case"], default=repr)))
        case = f0["case"]

        def pred(c, _sig=sig):
            return _sig in _replay_failures(mod, c)

        def _shrink_job(conn, case=case, pred=pred, sig=sig, f0=f0):
            try:
                if pred(case):
                    shr = getattr(mod, "shrink", None)
                    if shr:
                        case = shr(case, pred)
                    else:
                        case = shrink_value(case, pred, budget_s=15.0)
                    detail = _replay_failures(mod, case)[sig][1][0]["detail"]
                else:
                    detail = f0["detail"] + " [did not reproduce in replay: reported unshrunk]"
            except Exception:
                detail = f0["detail"] + " [shrink error: %s]" % traceback.format_exc(limit=1)
            try:
                conn.send((case, detail))
            except Exception:  # noqa: BLE001
                pass

        # replaying / shrinking runs the code under test again: do it in a child with a wall-clock limit, so that a failure whose
        # replay hangs or explodes (state left behind by the defect itself) is still reported, unshrunk
        import multiprocessing as _mp
        ctx = _mp.get_context("fork")
        parent_conn, child_conn = ctx.Pipe(duplex=False)
        proc = ctx.Process(target=_shrink_job, args=(child_conn,))
        proc.start()
        child_conn.close()
        detail = f0["detail"] + " [replay / shrink did not finish within 90 s: reported unshrunk]"
        if parent_conn.poll(90):
            try:
                case, detail = parent_conn.recv()
            except Exception:  # noqa: BLE001
                pass
        proc.join(1)
        if proc.is_alive():
            proc.kill()
            proc.join(5)
        os.makedirs(rdir, exist_ok=True)
        path = os.path.join(rdir, "%016x.json" % h64(sig, case))
        with open(path, "w", encoding="utf-8") as f:
            json.dump({"property": prop, "signature": sig, "count": n, "detail": detail, "case": case},
                      f, indent=1, ensure_ascii=True, default=repr)
        print("FAILURE signature=%s count=%d detail=%s" % (sig, n, short(detail, 600)))
        print("VIOLATION property=%s replay=%s" % (prop, os.path.relpath(path, ROOT)))
    if len(new_sigs) > 10:
        violations += len(new_sigs) - 10
        print("(+%d further failure signatures not written out)" % (len(new_sigs) - 10))

    wall = time.time() - t0
    extra = {"corpus_replayed": ncorpus, "failure_signatures": {s: n for s, n, _ in new_sigs}}
    if hasattr(mod, "extra_evidence"):
        extra.update(mod.extra_evidence(total))
    write_evidence(prop, tier, seed, getattr(mod, "LEVEL", "exploration"), total, mod.RULE,
                   getattr(mod, "ASSUMPTIONS", []), wall, violations, known_seen, extra)
    print("%s %s seed=%d: %d evaluations, %d distinct non-trivial, %d violations, %d known, %.1fs%s" % (
        prop, tier, seed, total.evaluations, len(total.nontrivial), violations, len(known_seen), wall,
        " (budget exhausted)" if total.budget_exhausted else ""))
    return 1 if violations else 0
