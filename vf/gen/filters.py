"""Type-directed (well-typed by construction) RFC 9535 filter expression ASTs, guided by the
candidate values the filter will see."""
from __future__ import annotations

from . import queries as Q

OPS = ["==", "!=", "<", "<=", ">", ">="]


def _children(vals):
    out = []
    for v in vals:
        if isinstance(v, dict):
            out.extend(v.values())
        elif isinstance(v, list):
            out.extend(v)
    return out


def _scalars_in(vals, limit=40):
    out = []
    stack = list(vals)
    while stack and len(out) < limit:
        v = stack.pop()
        if isinstance(v, dict):
            stack.extend(v.values())
        elif isinstance(v, list):
            stack.extend(v)
        else:
            out.append(v)
    return out


def lookalikes(v):
    if v is True:
        return [1, 1.0, "true"]
    if v is False:
        return [0, 0.0, "false", None]
    if v is None:
        return [False, 0, "null"]
    if isinstance(v, (int, float)):
        if v == 1:
            return [True, 1.0, "1", 1]
        if v == 0:
            return [False, 0.0, None, "", 0]
        return [str(v), v + 1, float(v)]
    if isinstance(v, str):
        if v == "":
            return [None, 0, False]
        return [v + "a", v[:-1], v.upper()]
    return None


LIT_POOL = [None, True, False, 0, 1, -1, 2, 1.0, 1.5, 0.0, "", "a", "b", "1", "true", "é", 10, 100]


class FilterGen:
    def __init__(self, rng, root, depth=3, ext=False, nested=True, funcs=True, ctx_data=None):
        self.rng = rng
        self.root = root
        self.max_depth = depth
        self.ext = ext
        self.nested = nested
        self.funcs = funcs
        self.ctx_data = ctx_data

    # entry point used as the `filt` callback of queries.gen_segments
    def __call__(self, rng, pool):
        cands = _children(pool)
        return self.logical(cands, self.max_depth)

    # ---- logical expressions
    def logical(self, cands, depth):
        rng = self.rng
        r = rng.random()
        if depth > 0 and r < 0.18:
            return ["or", self.logical(cands, depth - 1), self.logical(cands, depth - 1)]
        if depth > 0 and r < 0.36:
            return ["and", self.logical(cands, depth - 1), self.logical(cands, depth - 1)]
        if depth > 0 and r < 0.48:
            return ["not", self.logical(cands, depth - 1)]
        if depth > 0 and r < 0.54:
            return ["par", self.logical(cands, depth - 1)]
        return self.basic(cands, depth)

    def basic(self, cands, depth):
        rng = self.rng
        r = rng.random()
        if self.ext and rng.random() < 0.35:
            return self.ext_basic(cands, depth)
        if r < 0.30:
            return ["test", self.filter_query(cands, depth)]
        if r < 0.85 or not self.funcs:
            return self.comparison(cands, depth)
        return self.regex_call(cands)

    # ---- queries inside filters
    def filter_query(self, cands, depth, singular=False):
        rng = self.rng
        use_root = rng.random() < 0.2
        start = [self.root] if use_root else (cands or [None])
        if not use_root and cands:
            start = [rng.choice(cands)] if rng.random() < 0.7 else cands
        kinds = ("n", "i") if singular else ("n", "i", "s", "w")
        filt = None
        if not singular and self.nested and depth > 0 and rng.random() < 0.25:
            kinds = kinds + ("f",)
            sub = FilterGen(rng, self.root, depth - 1, self.ext, self.nested, self.funcs, self.ctx_data)
            sub.max_depth = depth - 1
            filt = sub
        nmax = rng.choice([0, 1, 1, 1, 2, 2, 3])
        if not use_root and start and not any(isinstance(v, (dict, list)) for v in start) and rng.random() < 0.75:
            nmax = 0  # scalar candidates: compare / test the candidate itself
        if singular:
            segs = self.singular_segments(start, nmax)
        else:
            segs, _ = Q.gen_segments(rng, self.root, nmax=nmax, kinds=kinds, filt=filt,
                                     desc_p=0.15, start=start) if nmax else ([], start)
        return ["q", "$" if use_root else "@", segs]

    def singular_segments(self, start, n):
        rng = self.rng
        cur = list(start)
        segs = []
        for _ in range(n):
            target = rng.choice(cur) if cur else None
            sel = Q.gen_selector(rng, [target], kinds=("n", "i"))
            segs.append(["c", [sel]])
            nxt = []
            for v in cur:
                if sel[0] == "n" and isinstance(v, dict) and sel[1] in v:
                    nxt.append(v[sel[1]])
                elif sel[0] == "i" and isinstance(v, list) and -len(v) <= sel[1] < len(v):
                    nxt.append(v[sel[1]])
                elif sel[0] == "i" and isinstance(v, dict) and str(sel[1]) in v:
                    nxt.append(v[str(sel[1])])
            cur = nxt
        return segs

    # ---- documented extensions (docs/syntax.md): membership, =~, #, _, ^, undefined, list literals
    def ext_basic(self, cands, depth):
        rng = self.rng
        r = rng.random()
        sc = _scalars_in(cands)
        if r < 0.25:
            # membership
            needle = self.ext_comparable(cands, depth)
            rr = rng.random()
            if rr < 0.4:
                items = [rng.choice(sc or LIT_POOL) for _ in range(rng.randint(0, 4))]
                items = [x if not isinstance(x, (dict, list)) else 1 for x in items]
                hay = ["list", items]
            else:
                hay = self.ext_query(cands, depth, singular=True)
            if rng.random() < 0.5:
                return ["in", needle, hay]
            return ["has", hay, needle]
        if r < 0.40:
            strs = [x for x in sc if isinstance(x, str) and "\n" not in x and "\r" not in x]
            pat = gen_pattern(rng, strs).replace("/", ".") or "a"
            flags = "".join(sorted(rng.sample("aims", rng.choice([0, 0, 1, 1, 2, 4]))))
            subj = self.ext_query(cands, depth, singular=True) if rng.random() < 0.85 else ["lit", rng.choice(strs or ["abc"])]
            return ["re", subj, pat, flags]
        if r < 0.60:
            # current key
            v = rng.choice(["a", "b", "0", 0, 1, 2, "1", ""] + [x for x in sc if isinstance(x, (str, int)) and not isinstance(x, bool)][:3])
            op = rng.choice(OPS + ["==", "=="])
            e = ["cmp", op, ["key"], ["lit", v]]
            return e if rng.random() < 0.7 else ["cmp", op, ["lit", v], ["key"]]
        if r < 0.80:
            q = self.ext_query(cands, depth, singular=True)
            op = rng.choice(["==", "!="])
            return ["cmp", op, q, ["undef"]] if rng.random() < 0.6 else ["cmp", op, ["undef"], q]
        return ["test", self.ext_query(cands, depth)]

    def ext_query(self, cands, depth, singular=False):
        """like filter_query but may be rooted at the filter context `_` or the fake root `^`"""
        rng = self.rng
        r = rng.random()
        if r < 0.3 and self.ctx_data is not None:
            root, start = "_", [self.ctx_data]
        elif r < 0.4:
            root, start = "^", [[self.root]]
        else:
            return self.filter_query(cands, depth, singular=singular)
        n = rng.choice([0, 1, 1, 2, 2, 3])  # 0: the bare identifier (the context mapping / the wrapped document itself)
        if singular:
            return ["q", root, self.singular_segments(start, n)]
        segs, _ = Q.gen_segments(rng, self.root, nmax=n, kinds=("n", "i", "s", "w"), desc_p=0.1, start=start)
        return ["q", root, segs]

    def ext_comparable(self, cands, depth):
        rng = self.rng
        r = rng.random()
        if r < 0.35:
            return self.ext_query(cands, depth, singular=True)
        if r < 0.5:
            return ["key"]
        v = self.literal_like(cands)
        if isinstance(v, (dict, list)):
            v = "a"
        return ["lit", v]

    # ---- comparisons
    def literal_like(self, cands):
        rng = self.rng
        sc = _scalars_in(cands)
        r = rng.random()
        if sc and r < 0.55:
            return rng.choice(sc)
        if sc and r < 0.75:
            v = rng.choice(sc)
            alts = lookalikes(v)
            if alts:
                return rng.choice(alts)
        return rng.choice(LIT_POOL)

    def comparable(self, cands, depth):
        rng = self.rng
        r = rng.random()
        if r < 0.45:
            return self.filter_query(cands, depth, singular=True)
        if r < 0.80 or not self.funcs:
            v = self.literal_like(cands)
            if isinstance(v, float) and (v != v or v in (float("inf"), float("-inf"))):
                v = 1.5
            if isinstance(v, (dict, list)):
                v = 1
            return ["lit", v]
        return self.value_call(cands, depth)

    def comparison(self, cands, depth):
        rng = self.rng
        op = rng.choice(OPS + ["==", "=="])
        return ["cmp", op, self.comparable(cands, depth), self.comparable(cands, depth)]

    # ---- functions
    def value_call(self, cands, depth):
        rng = self.rng
        fn = rng.choice(["length", "length", "count", "value"])
        if fn == "length":
            r = rng.random()
            if r < 0.7:
                arg = self.filter_query(cands, depth, singular=True)
            elif r < 0.85:
                arg = ["lit", self.literal_like(cands)]
                if isinstance(arg[1], (dict, list)):
                    arg = ["lit", "abc"]
            else:
                arg = ["call", "value", [self.filter_query(cands, depth - 1 if depth else 0)]]
            return ["call", "length", [arg]]
        return ["call", fn, [self.filter_query(cands, depth - 1 if depth else 0)]]

    def regex_call(self, cands):
        rng = self.rng
        fn = rng.choice(["match", "search"])
        strs = [s for s in _scalars_in(cands) if isinstance(s, str) and "\n" not in s and "\r" not in s]
        subj = self.filter_query(cands, 0, singular=True) if rng.random() < 0.85 else ["lit", rng.choice(strs or ["abc"])]
        pat = gen_pattern(rng, strs)
        parg = ["lit", pat] if rng.random() < 0.9 else self.filter_query(cands, 0, singular=True)
        return ["call", fn, [subj, parg]]


def gen_pattern(rng, strs):
    """A pattern in the dialect common to I-Regexp (RFC 9485) and Python re."""
    base = rng.choice(strs) if strs and rng.random() < 0.7 else rng.choice(["a", "ab", "abc", "1", "b", ""])
    out = []
    for ch in base[:6]:
        r = rng.random()
        if not (ch.isascii() and ch.isalnum()):
            out.append(".")
        elif r < 0.6:
            out.append(ch)
        elif r < 0.7:
            out.append(".")
        elif r < 0.8:
            out.append("[%s-%s]" % (ch, ch) if ch.isalnum() else ".")
        elif r < 0.9:
            out.append(ch + rng.choice(["*", "+", "?", "{1,2}"]))
        else:
            out.append("(%s|x)" % ch)
    r = rng.random()
    if r < 0.2:
        out.append(".*")
    elif r < 0.3:
        out.insert(0, ".*")
    elif r < 0.35:
        out = out[: len(out) // 2]
    elif r < 0.45 and len(out) >= 2:
        # an alternation whose first branch is a proper prefix of the second; or a lazy quantifier at the end
        whole = "".join(out)
        return "%s|%s" % ("".join(out[: len(out) // 2]), whole) if rng.random() < 0.6 else whole + rng.choice(["x??", "b+?", ".*?", "a??"])
    return "".join(out)
