"""AST -> query text.  Only spellings that RFC 9535's ABNF certainly permits (DESIGN A.1),
unless an extension option is switched on by the caller (C10/C13/C17).

Every spelling decision comes from `rng`, a random.Random seeded by a Hypothesis draw, so a
run is a pure function of VERIF_SEED.  rng=None gives the canonical (minimal) spelling.
"""
from __future__ import annotations

import json
import re

RESERVED = {
    "and", "or", "not", "in", "true", "True", "false", "False", "nil", "Nil", "null", "Null",
    "none", "None", "contains", "undefined", "missing",
}

_SHORT_RE = re.compile("[A-Za-z_\\u0080-\\ud7ff\\ue000-\\U0010ffff][A-Za-z0-9_\\u0080-\\ud7ff\\ue000-\\U0010ffff]*")

DEFAULT_TOKENS = {"root": "$", "self": "@", "key": "#", "ctx": "_", "keys": "~", "fake": "^",
                  "union": "|", "inter": "&"}

BLANKS = [" ", " ", " ", "\t", "\n", "\r", "  "]


def shorthand_ok(name: str) -> bool:
    return bool(_SHORT_RE.fullmatch(name))  # fullmatch: `$` would accept a trailing newline


class Renderer:
    def __init__(self, rng=None, ws=0.25, tokens=None, ext=None, features=None):
        self.rng = rng
        self.wsp = ws if rng is not None else 0.0
        self.tok = dict(DEFAULT_TOKENS)
        if tokens:
            self.tok.update(tokens)
        # extension spellings (all off = pure RFC 9535 surface syntax)
        self.ext = {"words": False, "omit_root": False, "bare_names": False, "lg": False,
                    "alias_lits": False, "force_quote": False, "no_shorthand": False}
        if ext:
            self.ext.update(ext)
        self.features = features if features is not None else set()

    # ---- random helpers
    def p(self, prob):
        return self.rng is not None and self.rng.random() < prob

    def pick(self, xs):
        return xs[0] if self.rng is None else self.rng.choice(xs)

    def S(self):
        if self.p(self.wsp):
            self.features.add("blank")
            return self.pick(BLANKS)
        return ""

    # ---- strings
    def string(self, s: str) -> str:
        q = self.pick(["'", '"'])
        self.features.add("sq" if q == "'" else "dq")
        out = []
        for ch in s:
            o = ord(ch)
            esc = None
            if ch == q:
                esc = "\\" + ch
            elif ch == "\\":
                esc = "\\\\"
            elif o < 0x20:
                named = {"\b": "\\b", "\f": "\\f", "\n": "\\n", "\r": "\\r", "\t": "\\t"}
                esc = named[ch] if ch in named and not self.p(0.3) else self.uesc(o)
            elif 0xD800 <= o <= 0xDFFF:
                raise ValueError("surrogate in name")
            elif self.p(0.08):
                if ch == "/" and self.p(0.5):
                    esc = "\\/"
                else:
                    esc = self.uesc(o)
            if esc is not None:
                self.features.add("escape")
                out.append(esc)
            else:
                out.append(ch)
        return q + "".join(out) + q

    def uesc(self, o):
        def h(x):
            s = "%04x" % x
            return "\\u" + (s.upper() if self.p(0.5) else s)
        if o > 0xFFFF:
            o -= 0x10000
            self.features.add("surrogate-pair-escape")
            return h(0xD800 + (o >> 10)) + h(0xDC00 + (o & 0x3FF))
        return h(o)

    # ---- numbers
    def integer(self, i: int) -> str:
        return str(i)

    def number(self, v) -> str:
        if isinstance(v, bool):
            raise ValueError
        if isinstance(v, int):
            if self.p(0.15) and v != 0 and v % 10 == 0 and abs(v) < 10**15:
                # exponent spelling of an integer value
                e = 0
                m = v
                while m % 10 == 0 and m != 0:
                    m //= 10
                    e += 1
                self.features.add("exp-int")
                return "%d%s%s%d" % (m, self.pick(["e", "E"]), self.pick(["", "+"]), e)
            if v == 0 and self.p(0.1):
                self.features.add("neg-zero")
                return "-0"
            return str(v)
        r = repr(v)
        if "inf" in r or "nan" in r:
            raise ValueError("not JSON")
        if self.p(0.25) and "e" not in r and "." in r:
            # the same value as <integer> e|E -<k>  (RFC 9535 number = int [frac] [exp]; e.g. 0.5 = 5E-1, 1.5 = 15e-1)
            ip, fr = r.split(".")
            digits = int(ip.lstrip("-") + fr)
            if digits and fr != "0" and len(fr) < 12:
                self.features.add("int-mantissa-neg-exp")
                return "%s%d%s-%d" % ("-" if r.startswith("-") else "", digits, self.pick(["e", "E"]), len(fr))
        if self.p(0.2) and "e" not in r and "." in r:
            self.features.add("trailing-zero")
            r += "0"
        if "e" in r and self.p(0.5):
            r = r.replace("e", "E")
        return r

    def literal(self, v) -> str:
        if v is None:
            if self.ext["alias_lits"] and self.rng is not None:
                return self.pick(["null", "nil", "none", "None", "Null", "Nil"])
            return "null"
        if v is True:
            return self.pick(["true", "True"]) if self.ext["alias_lits"] else "true"
        if v is False:
            return self.pick(["false", "False"]) if self.ext["alias_lits"] else "false"
        if isinstance(v, str):
            return self.string(v)
        return self.number(v)

    # ---- selectors / segments
    def selector(self, sel) -> str:
        k = sel[0]
        if k == "n":
            if self.ext["bare_names"] and re.fullmatch(r"[A-Za-z][A-Za-z0-9_]*", sel[1]) \
                    and sel[1] not in RESERVED and self.p(0.5):
                self.features.add("bare-name")
                return sel[1]
            return self.string(sel[1])
        if k == "i":
            return self.integer(sel[1])
        if k == "s":
            a, b, c = sel[1], sel[2], sel[3]
            out = ""
            if a is not None:
                out += self.integer(a) + self.S()
            out += ":" + self.S()
            if b is not None:
                out += self.integer(b) + self.S()
            if c is not None:
                out += ":" + self.S() + self.integer(c)
            elif self.p(0.3):
                self.features.add("slice-empty-step")
                out += ":"
            return out
        if k == "w":
            return "*"
        if k == "f":
            return "?" + self.S() + self.expr(sel[1], 0)
        if k == "k":
            return self.tok["keys"]
        raise ValueError(sel)

    def segment(self, seg, filter_singular=False) -> str:
        desc = seg[0] == "d"
        sels = seg[1]
        pre = ".." if desc else ""
        if len(sels) == 1 and not self.ext["no_shorthand"]:
            s = sels[0]
            if s[0] == "n" and shorthand_ok(s[1]) and not (desc and s[1] in RESERVED) \
                    and not self.ext["force_quote"] and (self.rng is None or self.p(0.6)):
                self.features.add("shorthand")
                return (".." if desc else ".") + s[1]
            if s[0] == "w" and (self.rng is None or self.p(0.6)):
                return (".." if desc else ".") + "*"
            if s[0] == "k" and self.p(0.5):
                return (".." if desc else ".") + self.tok["keys"]
        if filter_singular:
            # singular-query segments: no blank inside the brackets
            return pre + "[" + self.selector(sels[0]) + "]"
        if len(sels) > 1:
            self.features.add("list")
        inner = (self.S() + "," + self.S()).join(self.selector(s) for s in sels)
        return pre + "[" + self.S() + inner + self.S() + "]"

    def segments(self, segs, singular=False) -> str:
        out = []
        for seg in segs:
            blank = self.S()
            if blank and seg[0] == "d":
                self.features.add("blank-before-descendant")
            out.append(blank + self.segment(seg, filter_singular=singular))
        return "".join(out)

    def query(self, q, top=False, singular=False) -> str:
        root = {"$": self.tok["root"], "@": self.tok["self"], "_": self.tok["ctx"],
                "^": self.tok["fake"]}[q[1]]
        body = self.segments(q[2], singular=singular)
        if top and q[1] == "$" and self.ext["omit_root"] and q[2] and self.p(0.5):
            first = q[2][0]
            # `a.b`, `.a`, `[..]` without the root identifier
            self.features.add("root-omitted")
            body0 = body.lstrip(" \t\n\r")
            if first[0] == "c" and len(first[1]) == 1 and first[1][0][0] == "n" \
                    and body0.startswith(".") and first[1][0][1] not in RESERVED \
                    and not first[1][0][1].startswith("_") and first[1][0][1][:1].isascii() and self.p(0.5):
                return body0[1:]
            return body0
        return root + body

    # ---- filter expressions.  prec: 0 = or-level, 1 = and-level, 2 = basic
    def op_or(self):
        if self.ext["words"] and self.p(0.5):
            self.features.add("word-op")
            return " or "
        return self.S() + "||" + self.S()

    def op_and(self):
        if self.ext["words"] and self.p(0.5):
            self.features.add("word-op")
            return " and "
        return self.S() + "&&" + self.S()

    def op_not(self):
        if self.ext["words"] and self.p(0.5):
            self.features.add("word-op")
            return "not "
        return "!" + self.S()

    def paren(self, inner):
        return "(" + self.S() + inner + self.S() + ")"

    def expr(self, e, prec) -> str:
        k = e[0]
        if k == "or":
            s = self.expr(e[1], 0) + self.op_or() + self.expr(e[2], 1)
            return self.paren(s) if prec > 0 else s
        if k == "and":
            s = self.expr(e[1], 1) + self.op_and() + self.expr(e[2], 2)
            return self.paren(s) if prec > 1 else s
        if k == "not":
            inner = e[1]
            if inner[0] in ("test", "call", "q"):
                return self.op_not() + self.expr(inner, 2)
            if inner[0] == "par":
                return self.op_not() + self.expr(inner, 2)
            return self.op_not() + self.paren(self.expr(inner, 0))
        if k == "par":
            self.features.add("paren")
            return self.paren(self.expr(e[1], 0))
        if k == "cmp":
            op = e[1]
            if op == "!=" and self.ext["lg"] and self.p(0.5):
                op = "<>"
            return self.comparable(e[2]) + self.S() + op + self.S() + self.comparable(e[3])
        if k == "test":
            return self.query(e[1])
        if k == "q":
            return self.query(e)
        if k == "call":
            return self.call(e)
        if k == "in":
            return self.comparable(e[1]) + " in " + self.comparable(e[2])
        if k == "has":
            return self.comparable(e[1]) + " contains " + self.comparable(e[2])
        if k == "re":
            return self.comparable(e[1]) + self.S() + "=~" + self.S() + "/" + e[2] + "/" + e[3]
        if k == "lit":
            return self.literal(e[1])
        if k == "key":
            return self.tok["key"]
        if k == "undef":
            return self.pick(["undefined", "missing"])
        if k == "list":
            return "[" + (self.S() + "," + self.S()).join(self.literal(v) for v in e[1]) + "]"
        raise ValueError(e)

    def comparable(self, e) -> str:
        k = e[0]
        if k == "lit":
            return self.literal(e[1])
        if k == "q":
            return self.query(e, singular=_is_singular(e))
        if k == "call":
            return self.call(e)
        if k == "key":
            return self.tok["key"]
        if k == "undef":
            return self.pick(["undefined", "missing"])
        if k == "list":
            return "[" + (self.S() + "," + self.S()).join(self.literal(v) for v in e[1]) + "]"
        if k == "par":
            return self.paren(self.expr(e[1], 0))
        if k in ("cmp", "and", "or", "not", "test", "in", "has", "re"):
            # a parenthesised expression as an operand (accepted by the library, not RFC 9535)
            return self.paren(self.expr(e, 0))
        raise ValueError(e)

    def call(self, e) -> str:
        args = []
        for a in e[2]:
            if a[0] == "q":
                args.append(self.query(a))
            elif a[0] in ("lit", "call", "key", "list", "undef"):
                args.append(self.comparable(a))
            else:
                args.append(self.expr(a, 0))
        return e[1] + "(" + self.S() + (self.S() + "," + self.S()).join(args) + self.S() + ")"

    def compound(self, first, rest) -> str:
        out = self.query(first, top=True)
        for op, q in rest:
            out += " " + (self.tok["union"] if op == "|" else self.tok["inter"]) + " " + self.query(q, top=True)
        return out


def _is_singular(q):
    for seg in q[2]:
        if seg[0] != "c" or len(seg[1]) != 1 or seg[1][0][0] not in ("n", "i"):
            return False
    return True


def render(q, rng=None, **kw) -> str:
    return Renderer(rng, **kw).query(q, top=True)


def canonical(q) -> str:
    """One normalized spelling, used for distinct-case hashing."""
    return json.dumps(q, ensure_ascii=True, sort_keys=False)
