"""JSON document strategies (DESIGN 1.3)."""
from __future__ import annotations

from hypothesis import strategies as st

HIT = ["a", "b", "c", "d"]

NASTY = [
    "", "0", "1", "-1", "+1", " 1", "1 ", "01", "-0", "1_0", "\uff11", "1\u0663", "1\uff11", "-1\uff10", "1.0", "1e0", "2", "10",
    "~", "/", "~0", "~1", "a/b", "~01", "m~n",
    "'", '"', "\\", "a\\", "\\\\", "a'b", 'a"b', "\\'", "\\n", "\\u0041",
    "\n", "\t", "\u0001", "\u007f", " ", "\b", "\r", "\x1f",
    "\u00e9", "\u65e5\u672c", "\U0001f600", "\u00a0", "\ud7ff", "\ue000", "\uffff", "\U00010000",
    "#", "#0", "#a", "-", "*", "$", "@", "^", "_", "?", "..", ".", "[", "]", ",", ":",
    "and", "or", "not", "in", "true", "false", "null", "nil", "none", "None", "True",
    "length", "count", "contains", "undefined", "missing", "a-b", "a b", "A",
    # names that differ from their own Unicode normal forms / case foldings (and the forms they would collapse into)
    # text that looks like an escape of a surrogate half once its backslash is itself escaped; names that begin with a reserved word
    "\\ud83d", "x\\uDE00", "\\udc00\\ud800", "C:\\udd00\\file", "nilx", "Nile", "nullable", "nonesuch", "index", "order", "notes", "android", "truex", "containsx",
    "e\u0301", "\u212b", "\u00c5", "\u2126", "\u03a9", "\ufb01", "fi", "\u1e9b\u0323", "\u0130", "i\u0307", "\u00df", "ss", "\u1e9e",
]

INT_LIKE = ["0", "1", "2", "-1", "+1", " 1", "01", "-0", "1_0", "\uff11", "10", "1\u0663", "1\uff11", "13", "11"]

_text = st.text(alphabet=st.characters(codec="utf-8", exclude_categories=["Cs"]), max_size=6)


def names(nasty=0.4, hit=HIT):
    """Member names: hit alphabet, nasty pool, arbitrary text."""
    return st.one_of(
        st.sampled_from(hit),
        st.sampled_from(hit),
        st.sampled_from(NASTY),
        _text,
    ) if nasty >= 0.3 else st.one_of(
        st.sampled_from(hit), st.sampled_from(hit), st.sampled_from(hit), st.sampled_from(NASTY), _text)


INTS = st.one_of(
    st.sampled_from([0, 1, -1, 2, 3, 10, 2**53 - 1, -(2**53) + 1]),
    st.integers(-5, 20),
)
FLOATS = st.sampled_from([0.0, -0.0, 1.0, 1.5, -1.5, 2.0, 1e100, 0.1])
STRS = st.one_of(st.sampled_from(["", "a", "b", "ab", "abc", "1", "0", "true", "\u00e9", "\U0001f600", "a b", "xyz"]), _text)
SCALARS = st.one_of(st.none(), st.booleans(), INTS, FLOATS, STRS)


def json_values(name_st=None, scalars=SCALARS, max_leaves=12, max_children=5, array_bias=False):
    name_st = names() if name_st is None else name_st

    def ext(children):
        lists = st.lists(children, max_size=max_children)
        dicts = st.dictionaries(name_st, children, max_size=max_children)
        return st.one_of(lists, lists, dicts) if array_bias else st.one_of(lists, dicts)

    return st.recursive(scalars, ext, max_leaves=max_leaves)


def containers(name_st=None, scalars=SCALARS, max_leaves=12, max_children=5, array_bias=False):
    """Root is an array or object (the common case for queries)."""
    name_st = names() if name_st is None else name_st
    inner = json_values(name_st, scalars, max_leaves, max_children, array_bias)
    return st.one_of(
        st.lists(inner, max_size=max_children + 2),
        st.dictionaries(name_st, inner, max_size=max_children),
    )


def long_arrays(elem=SCALARS, max_size=12):
    return st.lists(elem, max_size=max_size)
