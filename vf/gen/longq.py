"""Long and deep - but legal - RFC 9535 queries: sizes a random generator of small cases never reaches.
Depth stays <= 100 (the limit C06's statement names); flat lengths go a little beyond it."""
from __future__ import annotations

A = ["q", "@", [["c", [["n", "a"]]]]]
B = ["q", "@", [["c", [["n", "b"]]]]]
SELF = ["q", "@", []]


def cmp_(op, l, r):
    return ["cmp", op, l, r]


def chain(op, operands):
    """right-nested, as the grammar reads a flat chain either way (&& and || are associative)"""
    e = operands[-1]
    for x in reversed(operands[:-1]):
        e = [op, x, e]
    return e


def chain_left(op, operands):
    e = operands[0]
    for x in operands[1:]:
        e = [op, e, x]
    return e


def long_filters(ks=(8, 16, 31, 32, 33, 63, 64, 65, 99, 100)):
    """(name, filter expression AST)"""
    out = []
    for k in ks:
        tests = [["test", A] if i % 2 == 0 else ["test", B] for i in range(k)]
        cmps = [cmp_("==", B, ["lit", i % 3]) for i in range(k)]
        out.append(("or-chain-tests-%d" % k, chain("or", tests)))
        out.append(("and-chain-tests-%d" % k, chain("and", tests)))
        out.append(("or-chain-cmps-%d" % k, chain("or", cmps)))
        out.append(("and-chain-cmps-left-%d" % k, chain_left("and", cmps)))
        out.append(("mixed-chain-%d" % k, chain("or", [chain("and", cmps[i:i + 3]) for i in range(0, k, 3)])))
        # depth: negated parentheses, parenthesised right operands, plain parentheses
        e = ["test", A]
        for _ in range(min(k, 99)):
            e = ["not", ["par", e]]
        out.append(("not-paren-depth-%d" % min(k, 99), e))
        e = cmp_("==", B, ["lit", 2])
        for _ in range(min(k, 99)):
            e = ["and", cmp_("==", B, ["lit", 2]), ["par", e]]
        out.append(("right-paren-depth-%d" % min(k, 99), e))
        e = ["test", A]
        for _ in range(min(k, 99)):
            e = ["par", e]
        out.append(("paren-depth-%d" % min(k, 99), e))
        e = cmp_("==", B, ["lit", 1])
        for i in range(min(k, 99)):
            e = ["or", ["par", e], ["test", A]] if i % 2 else ["and", ["par", e], ["test", B]]
        out.append(("left-paren-depth-%d" % min(k, 99), e))
    for k in (2, 5, 10, 20, 40):
        # filters nested in filters
        e = ["test", ["q", "@", [["c", [["n", "a"]]]]]]
        for _ in range(k):
            e = ["test", ["q", "@", [["c", [["f", e]]]]]]
        out.append(("nested-filters-%d" % k, e))
        # function calls nested: length(value(@..)) has fixed depth; count of a query with nested filters
        out.append(("count-of-nested-%d" % k, cmp_(">=", ["call", "count", [["q", "@", [["c", [["f", e]]]]]]], ["lit", 0])))
    return out


def long_queries():
    """(name, query AST) without filters: many selectors, many segments, large indices"""
    out = []
    for k in (10, 33, 64, 65, 100, 130):
        out.append(("list-of-%d-indices" % k, ["q", "$", [["c", [["i", i % 7] for i in range(k)]]]]))
        out.append(("list-of-%d-mixed" % k, ["q", "$", [["c", [[["i", i], ["n", "k%d" % i], ["s", i, None, None], ["w"]][i % 4] for i in range(k)]]]]))
        out.append(("%d-name-segments" % k, ["q", "$", [["c", [["n", "a"]]] for _ in range(k)]]))
        out.append(("%d-wild-segments" % min(k, 64), ["q", "$", [["c", [["w"]]] for _ in range(min(k, 64))]]))
        out.append(("index-%d" % (k * 7), ["q", "$", [["c", [["i", k * 7]]]]]))
        out.append(("neg-index-%d" % (k * 7), ["q", "$", [["c", [["i", -k * 7]]]]]))
        out.append(("slice-%d" % k, ["q", "$", [["c", [["s", k, k * 3, k // 5 + 1]]]]]))
        out.append(("slice-neg-%d" % k, ["q", "$", [["c", [["s", -k, None, -(k // 9 + 1)]]]]]))
    return out


def deep_a(depth, leaf=1):
    d = leaf
    for _ in range(depth):
        d = {"a": d}
    return d


def long_docs():
    big_arr = list(range(1000))
    big_obj = {"k%d" % i: i for i in range(300)}
    return [
        [{"a": 1, "b": 2}, {"a": 0, "b": 1}, {"b": 0}, {"a": None}, {}, {"a": {"a": {"a": 1}}, "b": 2}, [1, 2], 5],
        big_arr,
        big_obj,
        {"a": big_arr, "b": [{"a": i, "b": i % 3} for i in range(150)]},
        deep_a(99),
        [deep_a(40), deep_a(3), {"a": [{"a": [{"a": [1]}]}]}],
    ]
