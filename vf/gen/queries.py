"""Document-guided query AST generation (DESIGN 1.4).

The walk is driven by a random.Random seeded from a Hypothesis draw; the document comes
from Hypothesis strategies.  At each step a selector is chosen that (p~0.8) hits something in
the currently selected values, or (p~0.2) misses / is applied to the wrong kind of value.
"""
from __future__ import annotations

from ..ref import rfc9535 as ref
from . import docs as D

MISS_NAMES = ["a", "b", "zz", "", "0", "1", "-1", "length", "é", "'", '"', "\\", "a\\", "😀", " "]


def _descendants(values, limit=60):
    out = []
    stack = list(reversed(values))
    while stack and len(out) < limit:
        v = stack.pop()
        out.append(v)
        if isinstance(v, dict):
            stack.extend(reversed(list(v.values())))
        elif isinstance(v, list):
            stack.extend(reversed(v))
    return out


def gen_index(rng, n):
    if n == 0:
        return rng.choice([0, -1, 1])
    r = rng.random()
    if r < 0.45:
        return rng.randrange(n)
    if r < 0.8:
        return -rng.randrange(1, n + 1)
    return rng.choice([n, n + 1, -n - 1, -n - 2, 2**53 - 1, -(2**53) + 1])


def gen_slice(rng, n):
    def bound():
        r = rng.random()
        if r < 0.3:
            return None
        if r < 0.85:
            return rng.randint(-n - 2, n + 2)
        return rng.choice([0, -1, n, -n, 100, -100])
    step = rng.choice([None, None, 1, 1, 2, 3, -1, -1, -2, -3, 0, 5, -5])
    return ["s", bound(), bound(), step]


def gen_selector(rng, pool, stats_cls=None, kinds=("n", "i", "s", "w"), filt=None):
    """pool: list of values the selector will be applied to (never empty; may hold scalars)."""
    hit = rng.random() < 0.88
    containers = [v for v in pool if isinstance(v, (dict, list)) and len(v)] if pool else []
    target = rng.choice(containers) if (containers and rng.random() < 0.8) else (rng.choice(pool) if pool else None)
    weights = {"n": 4, "i": 3, "s": 2, "w": 2, "f": 3}
    ks = [k for k in kinds for _ in range(weights.get(k, 1))]
    k = rng.choice(ks)
    if hit:
        # steer the kind towards what the target is
        if isinstance(target, dict) and k in ("i", "s") and rng.random() < 0.7:
            k = "n" if "n" in kinds else k
        if isinstance(target, list) and k == "n" and rng.random() < 0.7:
            k = rng.choice([x for x in ("i", "s", "w") if x in kinds] or [k])
    if k == "n":
        if hit and isinstance(target, dict) and target:
            return ["n", rng.choice(list(target))]
        return ["n", rng.choice(MISS_NAMES + D.NASTY)]
    if k == "i":
        if isinstance(target, list):
            return ["i", gen_index(rng, len(target))]
        if isinstance(target, dict) and target and rng.random() < 0.5:
            # documented departure: index on object = member named str(i)
            ints = [int(x) for x in target if _canon_int(x)]
            if ints:
                return ["i", rng.choice(ints)]
        return ["i", rng.choice([0, 1, -1, 2])]
    if k == "s":
        n = len(target) if isinstance(target, (list, str)) else rng.choice([0, 3])
        return gen_slice(rng, n)
    if k == "w":
        return ["w"]
    if k == "f":
        return ["f", filt(rng, pool)]
    if k == "k":
        return ["k"]
    raise ValueError(k)


def _canon_int(s):
    if not isinstance(s, str) or not s:
        return False
    if s == "0":
        return True
    t = s[1:] if s[0] == "-" else s
    return t.isascii() and t.isdigit() and t[0] != "0" and len(t) < 16


def gen_segments(rng, doc, nmax=5, kinds=("n", "i", "s", "w"), filt=None, desc_p=0.25, start=None):
    """Walk `doc` and build 0..nmax segments; returns (segments, final nodelist values)."""
    current = [doc] if start is None else list(start)
    segs = []
    nseg = rng.choice([1, 1, 2, 2, 3, 3, 4, nmax]) if nmax else 0
    nseg = min(nseg, nmax)
    ctx = ref.Ctx(doc)
    for _ in range(nseg):
        desc = rng.random() < desc_p
        pool = _descendants(current) if desc else current
        if not pool:
            pool = [None]
        nsel = rng.choice([1, 1, 1, 1, 2, 2, 3, 4])
        sels = [gen_selector(rng, pool, kinds=kinds, filt=filt) for _ in range(nsel)]
        if nsel > 1 and rng.random() < 0.3:
            sels.append(rng.choice(sels))  # duplicate selector -> duplicate nodes
        seg = ["d" if desc else "c", sels]
        segs.append(seg)
        nl = ref.apply_segment(seg, [((), v) for v in current], ctx)
        current = [v for _, v in nl][:80]
        if not current and rng.random() < 0.7:
            break  # nothing selected any more: further segments only add empty cases
    return segs, current
