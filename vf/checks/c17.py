"""C17 - renaming the environment's identifier tokens never changes what a query means."""
from __future__ import annotations

import itertools
import random

from hypothesis import strategies as st

from .. import lib
from ..gen import docs as D
from ..gen import queries as Q
from ..gen.filters import FilterGen
from ..gen.render import DEFAULT_TOKENS, Renderer
from ..run import Stats, hyp_run, mix, rng_for
from ..strict import canon, short

import jsonpath
from jsonpath import JSONPathEnvironment

ID = "C17"
LEVEL = "exploration"
CLAIM = True
TECHNIQUE = ("differential property-based testing over configurations: generated assignments of 1-3 character spellings to the "
             "eight configurable identifiers (covering set incl. every prefix-related pair, plus random assignments) x generated "
             "extension queries using >= 3 identifiers x documents; custom environment vs default environment; string-form round "
             "trip inside the custom environment")
LEVEL_TEXT = ("Exploration over (configuration, program, input): the same AST is rendered with custom spellings and evaluated in a "
              "JSONPathEnvironment subclass carrying those spellings, and rendered with the default spellings in the default "
              "environment; values, parts (modulo the keys-selector prefix) and paths (modulo the root spelling) must agree; the "
              "custom environment's str(compiled) must recompile there to an equivalent query. A covering set puts every "
              "identifier on every pool spelling and every ordered identifier pair on every prefix-related spelling pair.")
LEVEL_TEXT += " Between compile() and str() in the custom environment the default and a third environment compile the same query in their own spellings (an environment's string form must not depend on what others have compiled)."
BUDGET_S = {"quick": 70, "thorough": 500}
RULE = ("Spellings from ASCII punctuation the fixed grammar does not use and that cannot be part of a name ($ @ # ~ ^ | & % ; { } "
        "and 2-3 character combinations; never || or &&; `_` only in its default role). Queries: extension ASTs with names always "
        "quoted. Non-trivial = an assignment with >= 1 multi-character spelling and >= 1 prefix-related pair, a query using >= 3 "
        "identifiers, and a non-empty result; distinct by (assignment, canonical query).")
ASSUMPTIONS = [
    "spellings are distinct and non-overlapping in the statement's sense; names in queries are always quoted so a spelling is never read as a name",
    "blanks are always written around logical and compound operators (a spelling ending in | next to || would otherwise be ambiguous by construction)",
    "the default environment is the oracle; C01/C02/C13 anchor it to the reference models",
]

IDS = ["root", "self", "key", "ctx", "keys", "fake", "union", "inter"]
ATTR = {"root": "root_token", "self": "self_token", "key": "key_token", "ctx": "filter_context_token", "keys": "keys_selector_token",
        "fake": "fake_root_token", "union": "union_token", "inter": "intersection_token"}
POOL = ["$", "@", "#", "~", "^", "|", "&", "%", ";", "{", "}", "$$", "@@", "%%", "^^^", "|&", "&|", ";;", "{{", "$@", "~^", "##", "@$", "%;", "{}",
        "$%$", "~~", "^%", ";{", "#$", "&%"]
CTX = {"a": 1, "s": "abc", "l": [1, "a", None], "o": {"a": 1, "b": {"c": 2}}, "k": "a"}

_ENVS = {}
# a third environment in which every identifier is spelled differently from the default (and from most of the pool)
ALT_ASSIGN = {"root": "\u00a7", "self": "\u00a4", "key": "\u00b6", "ctx": "\u00a3", "keys": "\u00b1", "fake": "\u00ac", "union": "\u00a6", "inter": "\u00d7"}


def make_env(assign):
    key = tuple(sorted(assign.items()))
    if key not in _ENVS:
        attrs = {ATTR[i]: s for i, s in assign.items()}
        _ENVS[key] = type("CustomEnv", (JSONPathEnvironment,), attrs)()
        if len(_ENVS) > 400:
            _ENVS.pop(next(iter(_ENVS)))
    return _ENVS[key]


ALT_TOKENS = dict(ALT_ASSIGN)


def valid_assignment(assign):
    vals = list(assign.values())
    if len(set(vals)) != len(vals):
        return False
    # union / intersection must not be a prefix of the fixed || / && or equal to them
    for v in vals:
        if v in ("||", "&&"):
            return False
    return True


def prefix_pairs(assign):
    vals = list(assign.values())
    return sum(1 for a, b in itertools.permutations(vals, 2) if b.startswith(a) and a != b)


def gen_query(rng, doc):
    fg = FilterGen(rng, doc, depth=2, ext=True, ctx_data=CTX)
    segs, _ = Q.gen_segments(rng, doc, nmax=3, kinds=("n", "i", "s", "w", "f", "f", "k"), filt=fg, desc_p=0.25)
    first = ["q", "^" if rng.random() < 0.2 else "$", segs]
    rest = []
    if rng.random() < 0.4:
        for _ in range(rng.choice([1, 1, 2])):
            segs2, _ = Q.gen_segments(rng, doc, nmax=2, kinds=("n", "i", "s", "w", "k"))
            rest.append((rng.choice("|&"), ["q", "^" if rng.random() < 0.15 else "$", segs2]))
    return first, rest


def identifiers_used(first, rest):
    used = {"root"} if first[1] == "$" or any(q[1] == "$" for _, q in rest) else set()
    stack = [first] + [q for _, q in rest]
    while stack:
        x = stack.pop()
        if isinstance(x, list) and x:
            if x[0] == "list":
                continue  # the items are scalars (possibly the strings "q", "k", ...), not AST nodes
            if x[0] == "q" and len(x) == 3:
                used.add({"$": "root", "@": "self", "_": "ctx", "^": "fake"}[x[1]])
            elif x[0] == "key":
                used.add("key")
            elif x[0] == "k":
                used.add("keys")
            stack.extend(x)
    for op, _ in rest:
        used.add("union" if op == "|" else "inter")
    return used


def render(first, rest, tokens, rng):
    r = Renderer(rng, ws=0.1, tokens=tokens, ext={"force_quote": True, "no_shorthand": False})
    # blanks around every logical operator: render with explicit spaces
    r.op_or = lambda: " || "
    r.op_and = lambda: " && "
    r.op_not = lambda: "! " if False else "!"
    return r.compound(first, rest)


def outcome(env, text, doc):
    try:
        ms = list(env.finditer(text, doc, filter_context=CTX))
    except Exception as e:  # noqa: BLE001
        return "err", type(e).__name__, str(e)[:120]
    return "ok", [(tuple(m.parts), m.obj, m.path) for m in ms], None


def same_parts(px, py, kt_c, kt_d):
    """equal, except that a keys-selector match carries the environment's own keys token as a prefix"""
    if len(px) != len(py):
        return False
    for x, y in zip(px, py):
        if type(x) is type(y) and x == y:
            continue
        if isinstance(x, str) and isinstance(y, str) and x.startswith(kt_c) and y.startswith(kt_d) and x[len(kt_c):] == y[len(kt_d):]:
            continue
        return False
    return True


def judge(stats: Stats, assign, first, rest, doc, rng, origin):
    env = make_env(assign)
    tokens = dict(DEFAULT_TOKENS)
    tokens.update(assign)
    s_custom = rng.getstate()
    text_c = render(first, rest, tokens, rng)
    rng.setstate(s_custom)
    text_d = render(first, rest, DEFAULT_TOKENS, rng)
    case = {"assign": assign, "first": first, "rest": [[o, q] for o, q in rest], "doc": doc, "custom_text": text_c, "default_text": text_d}
    stats.ev()
    a = outcome(env, text_c, doc)
    b = outcome(jsonpath.DEFAULT_ENV, text_d, doc)
    used = identifiers_used(first, rest)
    tag = "+".join(sorted(i for i in used if assign.get(i, DEFAULT_TOKENS[i]) != DEFAULT_TOKENS[i])) or "none"
    if b[0] == "err":
        stats.excluded["default-env-rejects-or-raises:" + b[1]] += 1
        return None
    if a[0] == "err":
        stats.fail("custom-env-raises:%s:%s" % (a[1], tag), case, "%r in the custom environment %s raised %s: %s; default spelling %r gives %d matches" % (
            text_c, assign, a[1], a[2], text_d, len(b[1])))
        return None
    kt_c, kt_d = tokens["keys"], DEFAULT_TOKENS["keys"]
    ok = len(a[1]) == len(b[1])
    if ok:
        for x, y in zip(a[1], b[1]):
            if not same_parts(x[0], y[0], kt_c, kt_d) or not lib.same_node(x[1], y[1]):
                ok = False
                break
            px = x[2][len(tokens["root"]):] if x[2].startswith(tokens["root"]) else None
            py = y[2][1:]
            if px is None or px.replace("[" + kt_c + "]", "[<keys>]") != py.replace("[" + kt_d + "]", "[<keys>]"):
                stats.fail("path-differs:%s" % tag, case, "match path %r (custom) vs %r (default)" % (x[2], y[2]))
                break
    if not ok:
        stats.fail("result-differs:%s" % tag, case, "%r under %s gives %s; %r in the default environment gives %s" % (
            text_c, assign, short([x[0] for x in a[1]], 140), text_d, short([y[0] for y in b[1]], 140)))
        return None
    # findall agrees with finditer in the custom environment too (compound operators are spelled by the environment)
    stats.ev()
    try:
        fa = env.findall(text_c, doc, filter_context=CTX)
        if len(fa) != len(a[1]) or any(not lib.same_node(x, y[1]) and not (isinstance(x, list) and y[0] == ()) for x, y in zip(fa, a[1])):
            stats.fail("findall-differs:%s" % tag, case, "in the custom environment %s findall(%r) gives %s but finditer gives %s" % (
                assign, text_c, short(fa, 140), short([y[1] for y in a[1]], 140)))
    except Exception as e:  # noqa: BLE001
        stats.fail("findall-raises:%s:%s" % (type(e).__name__, tag), case, "findall(%r) raised %s" % (text_c, e))
    # string form produced by the custom environment recompiles there to an equivalent query
    stats.ev()
    try:
        p = env.compile(text_c)
        # other environments compile the same query in their own spellings before the string form is taken: what an
        # environment prints must not depend on what other environments have compiled since
        try:
            jsonpath.DEFAULT_ENV.compile(text_d)
            alt = make_env(ALT_ASSIGN)
            rng.setstate(s_custom)
            alt.compile(render(first, rest, ALT_TOKENS, rng))
        except Exception:  # noqa: BLE001
            pass
        s = str(p)
    except Exception as e:  # noqa: BLE001
        stats.fail("str-raised:%s" % type(e).__name__, case, repr(e))
        return a
    c2 = dict(case)
    c2["string_form"] = s
    try:
        p2 = env.compile(s)
    except Exception as e:  # noqa: BLE001
        stats.fail("str-recompile-rejected:%s" % tag, c2, "custom environment %s prints %r as %r which it rejects: %s" % (assign, text_c, s, e))
        return a
    try:
        r2 = [(tuple(m.parts), m.obj) for m in p2.finditer(doc, filter_context=CTX)]
    except Exception as e:  # noqa: BLE001
        stats.fail("str-recompiled-raises:%s:%s" % (type(e).__name__, tag), c2, "string form %r raised %s" % (s, e))
        return a
    if len(r2) != len(a[1]) or any(x[0] != y[0] or not lib.same_node(x[1], y[1]) for x, y in zip(a[1], r2)):
        stats.fail("str-recompiled-differs:%s" % tag, c2, "custom environment %s: %r prints as %r which gives %s instead of %s" % (
            assign, text_c, s, short([y[0] for y in r2], 120), short([x[0] for x in a[1]], 120)))
    return a


# ------------------------------------------------------------------ covering set + random assignments

FIXED_QUERIES = [
    # (first, rest) using every identifier
    (["q", "$", [["c", [["n", "items"]]], ["c", [["f", ["and", ["cmp", "==", ["q", "@", [["c", [["n", "a"]]]]], ["q", "$", [["c", [["n", "k"]]]]]],
                                                           ["cmp", ">=", ["key"], ["lit", 0]]]]]]]], [("|", ["q", "$", [["c", [["n", "k"]]]]])]),
    (["q", "^", [["c", [["f", ["test", ["q", "@", [["c", [["n", "items"]]]]]]]]]]], [("&", ["q", "^", [["c", [["w"]]]]])]),
    (["q", "$", [["c", [["n", "items"]]], ["c", [["f", ["cmp", "==", ["q", "@", [["c", [["n", "a"]]]]], ["q", "_", [["c", [["n", "a"]]]]]]]]]]], []),
    (["q", "$", [["c", [["k"]]]]], [("|", ["q", "$", [["c", [["n", "items"]]], ["c", [["i", 0]]], ["c", [["k"]]]]])]),
    (["q", "$", [["d", [["f", ["or", ["cmp", "==", ["key"], ["lit", "a"]], ["test", ["q", "^", [["c", [["f", ["cmp", "==", ["q", "@", [["c", [["n", "k"]]]]], ["lit", 1]]]]]]]]]]]]]], []),
    (["q", "$", [["c", [["n", "items"]]], ["c", [["f", ["test", ["q", "@", [["c", [["f", ["cmp", "==", ["q", "@", []], ["q", "_", [["c", [["n", "k"]]]]]]]]]]]]]]]]], [("&", ["q", "$", [["c", [["n", "items"]]], ["c", [["w"]]]]])]),
]
FIXED_DOC = {"k": 1, "items": [{"a": 1, "b": ["a"]}, {"a": 2, "b": []}, {"a": "a", "k": 1}], "a": {"k": 1}}


# spellings that mix letters / digits with symbols: fine for every identifier but the keys selector, whose spelling then overlaps
# with the syntax of member names (`.k#`, `[k#]`) - an overlap the statement excludes
MIXED = ["k#", "s@", "r$", "x%", "s1@", "#k", "$1$", "@1", "#_", "u|", "k~", "_#", "\u00e9#", "a1%", "%a1", "k##", "#k#"]


def covering_assignments():
    out = []
    for ident in IDS:
        if ident == "keys":
            continue
        for sp in MIXED:
            a = {ident: sp}
            full = dict(DEFAULT_TOKENS)
            full.update(a)
            if valid_assignment(full):
                out.append(a)
    # two identifiers on mixed spellings, one a prefix / suffix-sharing variant of the other
    for (i, j) in itertools.permutations([x for x in IDS if x != "keys"], 2):
        for a, b in (("k#", "k##"), ("#k", "#k#"), ("s@", "s1@"), ("k#", "#k"), ("a1%", "%a1")):
            asg = {i: a, j: b}
            full = dict(DEFAULT_TOKENS)
            full.update(asg)
            if valid_assignment(full):
                out.append(asg)
    # each identifier on each pool spelling
    for ident in IDS:
        for sp in POOL:
            a = {ident: sp}
            full = dict(DEFAULT_TOKENS)
            full.update(a)
            if valid_assignment(full):
                out.append(a)
    # each ordered identifier pair on each prefix-related pair
    pps = [(a, b) for a, b in itertools.permutations(POOL, 2) if b.startswith(a)]
    for (i, j) in itertools.permutations(IDS, 2):
        for a, b in pps:
            asg = {i: a, j: b}
            full = dict(DEFAULT_TOKENS)
            full.update(asg)
            if valid_assignment(full):
                out.append(asg)
    return out


def t_covering(shard, nshards):
    stats = Stats()
    rng = random.Random(shard)
    n = 0
    for idx, asg in enumerate(covering_assignments()):
        if idx % nshards != shard:
            continue
        full = dict(DEFAULT_TOKENS)
        full.update(asg)
        qs = [q for q in FIXED_QUERIES if identifiers_used(*q) & set(asg)] or FIXED_QUERIES[:1]
        for first, rest in rng.sample(qs, min(2, len(qs))):
            r = judge(stats, asg, first, rest, FIXED_DOC, rng, "covering")
            n += 1
            if r and r[1] and prefix_pairs(full):
                stats.nt("cover", canon(asg), canon(first))
        stats.cls("cover:%s" % "+".join(sorted(asg)))
    stats.subspaces.append({"name": "covering set: each identifier x each of %d spellings; each ordered identifier pair x each prefix-related spelling pair (shard %d/%d)" % (
        len(POOL), shard, nshards), "size": n, "exhaustive": True})
    return stats


@st.composite
def cases(draw):
    doc = draw(D.containers(max_leaves=10, name_st=st.one_of(st.sampled_from(D.HIT), st.sampled_from(["k", "items", "a b", "$", "@", "#", "~", "%", "|"]))))
    return doc, draw(st.integers(0, 2**32 - 1))


def t_random(seed, n):
    stats = Stats()

    def body(x):
        doc, s = x
        rng = rng_for(s)
        stats.case()
        k = rng.choice([1, 2, 3, 4, 8])
        ids = rng.sample([i for i in IDS if i != "ctx" or True], k)
        asg = {}
        for i in ids:
            asg[i] = rng.choice(POOL)
        full = dict(DEFAULT_TOKENS)
        full.update(asg)
        if not valid_assignment(full):
            stats.excluded["assignment-not-distinct"] += 1
            return
        first, rest = gen_query(rng, doc)
        used = identifiers_used(first, rest)
        r = judge(stats, asg, first, rest, doc, rng, "random")
        multi = any(len(v) > 1 for v in asg.values())
        stats.cls("ids-used:%d" % len(used))
        if multi:
            stats.cls("multi-char")
        if prefix_pairs(full):
            stats.cls("prefix-pair")
        if r and r[1] and multi and prefix_pairs(full) and len(used) >= 3:
            stats.nt(canon(asg), canon(first), canon(rest))
            if len(stats.samples) < 5:
                tokens = dict(DEFAULT_TOKENS)
                tokens.update(asg)
                stats.sample({"assignment": asg, "query": render(first, rest, tokens, random.Random(0)), "matches": len(r[1])})

    hyp_run(cases(), body, n, seed, stats)
    return stats


def tasks(tier, seed):
    ts = [{"name": "covering-%d" % k, "fn": "t_covering", "kw": {"shard": k, "nshards": 8}} for k in range(8)]
    n = 1500 if tier == "quick" else 30000
    for k in range(8):
        ts.append({"name": "random-%d" % k, "fn": "t_random", "kw": {"seed": mix(seed, ID, k), "n": n}})
    return ts


def replay(case):
    stats = Stats()
    rest = [(o, q) for o, q in case["rest"]]
    for s in range(4):
        judge(stats, case["assign"], case["first"], rest, case["doc"], random.Random(s), "replay")
    return stats


def shrink(case, pred):
    from ..run import shrink_value

    def p_doc(d):
        c = dict(case)
        c["doc"] = d
        return pred(c)

    case = dict(case)
    case["doc"] = shrink_value(case["doc"], p_doc, budget_s=6)
    return case
