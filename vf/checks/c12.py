"""C12 - query iterator operations behave as list slicing on the match sequence."""
from __future__ import annotations

import itertools
import random

from hypothesis import strategies as st
from hypothesis.stateful import RuleBasedStateMachine, initialize, invariant, precondition, rule

from ..run import Stats, mix, run_machine
from ..strict import short

import jsonpath

ID = "C12"
LEVEL = "exploration"
CLAIM = True
TECHNIQUE = ("model-based stateful testing: Hypothesis rule-based state machine over pools of live Query objects, each paired "
             "with a model list of the matches it has yet to yield; exhaustive enumeration of all operation chains of length "
             "<= 3 x counts {-1,0,1,2,L-1,L,L+1} x sequence lengths 0..5")
LEVEL_TEXT = ("Exploration of operation histories against a list model: limit/head/first, skip/drop, tail/last, take (new query "
              "= next n, original keeps the rest), tee (n independent iterators; the original leaves the pool), first_one/one, "
              "last_one, the four views and partial next() are applied in generated orders; after every step and at the end each "
              "live query must yield exactly its model; negative counts must raise ValueError and change nothing. All chains of "
              "length <= 3 over 7 chain operations x 7 counts x lengths 0-5 are enumerated exhaustively.")
LEVEL_TEXT += ' After last_one() the query must yield nothing more.'
BUDGET_S = {"quick": 60, "thorough": 400}
RULE = ("Histories over match sequences of length 0-30 (exhaustive for length <= 5, chains <= 3). Non-trivial = a chain with >= 2 "
        "operations at least one of which has 0 < n < remaining; distinct by (L, chain).")
ASSUMPTIONS = [
    "a query is not used after tee() (documented as unsafe)",
    "matches are identified by (path, object identity) against an independent list(finditer())",
]


def fresh(L, dup=False):
    """a live Query over a match sequence of length L and its model list.  dup=True: the sequence visits some
    nodes more than once (a bracketed list with repeated indices), so views keyed by location must keep duplicates"""
    if dup and L >= 2:
        n = L // 2 + 1
        doc = list(range(100, 100 + n))
        idx = [(i * 2) % n if i % 3 else (i // 3) % n for i in range(L)]
        text = "$[%s]" % ",".join(str(i) for i in idx)
    else:
        doc = list(range(100, 100 + L))
        text = "$[*]"
    q = jsonpath.query(text, doc)
    model = [(m.path, m.obj) for m in jsonpath.finditer(text, doc)]
    assert len(model) == L, (text, L, len(model))
    return q, model


def key(m):
    return (m.path, m.obj)


def drain(q):
    return [key(m) for m in q]


COUNTED = {
    "limit": lambda q, n: q.limit(n), "head": lambda q, n: q.head(n), "first": lambda q, n: q.first(n),
    "skip": lambda q, n: q.skip(n), "drop": lambda q, n: q.drop(n),
    "tail": lambda q, n: q.tail(n), "last": lambda q, n: q.last(n),
}


def model_counted(op, model, n):
    if op in ("limit", "head", "first"):
        return model[:n]
    if op in ("skip", "drop"):
        return model[n:]
    return model[max(0, len(model) - n):] if n else []


# ------------------------------------------------------------------ exhaustive chains

CHAIN_OPS = ["limit", "skip", "tail", "take-original", "take-taken", "tee-first", "tee-second"]


def apply_chain(stats, L, chain):
    """returns None (ok) or a failure description; chain = [(op, n)]"""
    q, model = fresh(L)
    case = {"L": L, "chain": [list(c) for c in chain]}
    others = []  # (query, model, label) that must also drain correctly
    for op, n in chain:
        stats.ev()
        if n < 0:
            try:
                if op in ("limit", "skip", "tail"):
                    COUNTED[op](q, n)
                elif op.startswith("take"):
                    q.take(n)
                else:
                    q.tee(n)
            except ValueError:
                continue
            except Exception as e:  # noqa: BLE001
                stats.fail("negative:%s:wrong-error:%s" % (op.split("-")[0], type(e).__name__), case, "%s(-1) raised %s" % (op, type(e).__name__))
                return
            stats.fail("negative:%s:accepted" % op.split("-")[0], case, "%s(%d) did not raise ValueError" % (op, n))
            return
        if op in ("limit", "skip", "tail"):
            r = COUNTED[op](q, n)
            if r is not q:
                stats.fail("returns-other-object:%s" % op, case, "%s() returned a different object" % op)
            model = model_counted(op, model, n)
        elif op == "take-original":
            t = q.take(n)
            others.append((t, model[:n], "taken"))
            model = model[n:]
        elif op == "take-taken":
            t = q.take(n)
            others.append((q, model[n:], "original after take"))
            q, model = t, model[:n]
        elif op in ("tee-first", "tee-second"):
            a, b = q.tee(2)
            if op == "tee-first":
                others.append((b, list(model), "other tee"))
                q = a
            else:
                others.append((a, list(model), "other tee"))
                q = b
    got = drain(q)
    if got != model:
        sig = "chain:" + ">".join(o for o, _ in chain)
        stats.fail(sig, case, "L=%d chain %s yields %s, list model gives %s" % (L, chain, [g[1] for g in got], [m[1] for m in model]))
        return
    for oq, om, label in others:
        g = drain(oq)
        if g != om:
            stats.fail("chain-side:%s:%s" % (label.replace(" ", "-"), ">".join(o for o, _ in chain)), case,
                       "L=%d chain %s: the %s yields %s, model gives %s" % (L, chain, label, [x[1] for x in g], [x[1] for x in om]))
            return


def t_chains(L, maxk=3, shard=0, nshards=1):
    stats = Stats()
    ns = sorted({-1, 0, 1, 2, L - 1, L, L + 1} - {-2})
    ns = [n for n in ns if n >= -1]
    steps = [(op, n) for op in CHAIN_OPS for n in ns if not (op.startswith("tee") and n not in (0, -1))]
    n_chains = 0
    for k in range(1, maxk + 1):
        for ci, chain in enumerate(itertools.product(steps, repeat=k)):
            if ci % nshards != shard:
                continue
            apply_chain(stats, L, chain)
            n_chains += 1
            if k >= 2 and any(0 < n < L for _, n in chain):
                stats.nt("chain", L, repr(chain))
    stats.subspaces.append({"name": "all chains of length <= %d over %d (operation, count) steps, match sequence length %d (shard %d/%d)" % (maxk, len(steps), L, shard, nshards),
                            "size": n_chains, "exhaustive": True})
    stats.sample({"L": L, "chain": [list(c) for c in chain]})
    return stats


def t_long():
    """match sequences of 70 / 130 / 1000 elements and chains of up to 8 steps with counts around 0, 63..65, L (pseudo-random, fixed seed)"""
    import random
    stats = Stats()
    rng = random.Random(41)
    n = 0
    for L in (70, 130, 1000):
        counts = [0, 1, 2, 9, 10, 31, 32, 33, 63, 64, 65, L // 2, L - 65, L - 64, L - 1, L, L + 1, -1]
        for _ in range(700 if L < 1000 else 120):
            k = rng.choice([1, 2, 3, 4, 5, 6, 8])
            chain = []
            for _ in range(k):
                op = rng.choice(CHAIN_OPS)
                c = rng.choice(counts) if rng.random() < 0.8 else rng.randrange(0, L + 2)
                if op.startswith("tee"):
                    c = 0
                chain.append((op, c))
            apply_chain(stats, L, tuple(chain))
            n += 1
            if k >= 3:
                stats.nt("long-chain", L, repr(chain))
    stats.subspaces.append({"name": "1520 pseudo-random chains of 1-8 steps on match sequences of 70 / 130 / 1000 elements, counts at 0, 9/10, 31..33, 63..65, L-65..L+1",
                            "size": n, "exhaustive": False})
    return stats


def t_terminals():
    """first_one/one/last_one and the four views after every prefix operation"""
    stats = Stats()
    n = 0
    for L, dup in [(L, d) for L in range(0, 7) for d in (False, True)]:
        for pre in [()] + [((op, k),) for op in ("limit", "skip", "tail") for k in (0, 1, L, L + 1)]:
            for term in ("first_one", "one", "last_one", "values", "locations", "items", "pointers", "next-then-rest"):
                q, model = fresh(L, dup)
                for op, k in pre:
                    COUNTED[op](q, k)
                    model = model_counted(op, model, k)
                case = {"L": L, "chain": [list(p) for p in pre], "terminal": term}
                stats.ev()
                n += 1
                if term in ("first_one", "one"):
                    m = getattr(q, term)()
                    want = model[0] if model else None
                    if (m is None) != (want is None) or (m is not None and key(m) != want):
                        stats.fail("terminal:%s" % term, case, "%s gives %s, model %s" % (term, m, want))
                    elif drain(q) != model[1:]:
                        stats.fail("terminal:%s:rest" % term, case, "after %s the query does not yield the rest" % term)
                elif term == "last_one":
                    m = q.last_one()
                    want = model[-1] if model else None
                    if (m is None) != (want is None) or (m is not None and key(m) != want):
                        stats.fail("terminal:last_one", case, "last_one gives %s, model %s" % (m, want))
                    elif drain(q) != []:
                        stats.fail("terminal:last_one:rest", case, "after last_one() the query still yields matches (tail(1) leaves nothing behind its one match)")
                elif term == "values":
                    if list(q.values()) != [o for _, o in model]:
                        stats.fail("view:values", case, "values() differs from the remaining matches")
                elif term == "locations":
                    if list(q.locations()) != [p for p, _ in model]:
                        stats.fail("view:locations", case, "locations() differs")
                elif term == "items":
                    if list(q.items()) != [(p, o) for p, o in model]:
                        stats.fail("view:items", case, "items() differs")
                elif term == "pointers":
                    got = [str(p) for p in q.pointers()]
                    want = ["/" + p[2:-1] for p, _ in model]
                    if got != want:
                        stats.fail("view:pointers", case, "pointers() gives %s, expected %s" % (got, want))
                else:
                    if model:
                        m = next(iter(q), None)
                        if m is None or key(m) != model[0] or drain(q) != model[1:]:
                            stats.fail("terminal:next", case, "next() then drain differs from the model")
                stats.nt("terminal", L, dup, repr(pre), term)
    stats.subspaces.append({"name": "terminal operations and views after every single prefix operation, L = 0..6, with and without repeated nodes", "size": n, "exhaustive": True})
    return stats


# ------------------------------------------------------------------ state machine

_MS = None


class QueryMachine(RuleBasedStateMachine):
    def __init__(self):
        super().__init__()
        self.pool = []  # [query, model]
        self.hist = []

    @initialize(L=st.integers(0, 30), dup=st.booleans())
    def start(self, L, dup):
        q, model = fresh(L, dup)
        self.pool = [[q, model]]
        self.hist = [["start", L, dup]]

    @precondition(lambda self: len(self.pool) < 3)
    @rule(L=st.integers(0, 12), dup=st.booleans())
    def new_query(self, L, dup):
        q, model = fresh(L, dup)
        self.pool.append([q, model])
        self.hist.append(["new", L, dup])

    def _pick(self, i):
        return self.pool[i % len(self.pool)]

    def _fail(self, sig, detail):
        _MS.fail(sig, {"history": list(self.hist)}, detail)

    @precondition(lambda self: self.pool)
    @rule(i=st.integers(0, 7), op=st.sampled_from(sorted(COUNTED)), n=st.integers(0, 12))
    def counted(self, i, op, n):
        ent = self._pick(i)
        self.hist.append([op, i % len(self.pool), n])
        COUNTED[op](ent[0], n)
        ent[1] = model_counted(op, ent[1], n)

    @precondition(lambda self: self.pool)
    @rule(i=st.integers(0, 7), op=st.sampled_from(sorted(COUNTED) + ["take", "tee"]))
    def negative(self, i, op):
        ent = self._pick(i)
        self.hist.append([op, i % len(self.pool), -1])
        try:
            (ent[0].take(-1) if op == "take" else (ent[0].tee(-1) if op == "tee" else COUNTED[op](ent[0], -1)))
        except ValueError:
            return
        self._fail("negative:%s:accepted" % op, "%s(-1) did not raise ValueError after %s" % (op, self.hist))

    @precondition(lambda self: self.pool and len(self.pool) < 6)
    @rule(i=st.integers(0, 7), n=st.integers(0, 8))
    def take(self, i, n):
        ent = self._pick(i)
        self.hist.append(["take", i % len(self.pool), n])
        t = ent[0].take(n)
        self.pool.append([t, ent[1][:n]])
        ent[1] = ent[1][n:]

    @precondition(lambda self: self.pool and len(self.pool) < 6)
    @rule(i=st.integers(0, 7), n=st.integers(1, 3))
    def tee(self, i, n):
        idx = i % len(self.pool)
        ent = self.pool.pop(idx)
        self.hist.append(["tee", idx, n])
        for q in ent[0].tee(n):
            self.pool.append([q, list(ent[1])])

    @precondition(lambda self: self.pool)
    @rule(i=st.integers(0, 7), which=st.sampled_from(["first_one", "one", "next"]))
    def pop_first(self, i, which):
        ent = self._pick(i)
        self.hist.append([which, i % len(self.pool)])
        if which == "next":
            try:
                m = next(iter(ent[0]))
            except StopIteration:
                m = None
        else:
            m = getattr(ent[0], which)()
        want = ent[1][0] if ent[1] else None
        if (m is None) != (want is None) or (m is not None and key(m) != want):
            self._fail("machine:%s" % which, "%s gave %s, model %s after %s" % (which, m and key(m), want, self.hist))
        ent[1] = ent[1][1:]

    @precondition(lambda self: self.pool)
    @rule(i=st.integers(0, 7), view=st.sampled_from(["drain", "values", "locations", "items", "last_one"]))
    def consume(self, i, view):
        idx = i % len(self.pool)
        ent = self.pool.pop(idx)
        self.hist.append([view, idx])
        q, model = ent
        _MS.ev()
        if view == "drain":
            ok = drain(q) == model
        elif view == "values":
            ok = list(q.values()) == [o for _, o in model]
        elif view == "locations":
            ok = list(q.locations()) == [p for p, _ in model]
        elif view == "items":
            ok = list(q.items()) == model
        else:
            m = q.last_one()
            ok = (m is None and not model) or (m is not None and model and key(m) == model[-1])
        if not ok:
            self._fail("machine:%s" % view, "%s differs from the list model after %s" % (view, self.hist))
        if len(self.hist) >= 3:
            _MS.nt("m", repr(self.hist))

    def teardown(self):
        for q, model in self.pool:
            _MS.ev()
            if drain(q) != model:
                self._fail("machine:final-drain", "a live query does not yield its model after %s" % (self.hist,))
                break
        _MS.cls("machine-len:%d" % min(len(self.hist), 20))


def t_machine(seed, n):
    global _MS
    _MS = Stats()
    run_machine(QueryMachine, n, 14, seed, _MS)
    _MS.generated += n
    return _MS


def tasks(tier, seed):
    ts = _tasks(tier, seed)
    ts.append({"name": "long", "fn": "t_long"})
    return ts


def _tasks(tier, seed):
    ts = [{"name": "chains-L%d" % L, "fn": "t_chains", "kw": {"L": L}} for L in range(0, 6)]
    if tier == "thorough":
        ts = [{"name": "chains4-L%d-%d" % (L, k), "fn": "t_chains", "kw": {"L": L, "maxk": 4, "shard": k, "nshards": 8}} for L in range(0, 5) for k in range(8)]
        ts += [{"name": "chains-L5", "fn": "t_chains", "kw": {"L": 5}}]
    ts.append({"name": "terminals", "fn": "t_terminals"})
    n = 1500 if tier == "quick" else 12000
    for k in range(8 if tier == "quick" else 16):
        ts.append({"name": "machine-%d" % k, "fn": "t_machine", "kw": {"seed": mix(seed, ID, k), "n": n}})
    return ts


def replay(case):
    stats = Stats()
    if "history" in case:
        return replay_history(stats, case["history"])
    if "terminal" in case:
        return t_terminals()
    apply_chain(stats, case["L"], [tuple(c) for c in case["chain"]])
    return stats


def replay_history(stats, hist):
    pool = []
    for step in hist:
        op = step[0]
        stats.ev()
        if op == "start":
            q, model = fresh(step[1], step[2] if len(step) > 2 else False)
            pool = [[q, model]]
        elif op == "new":
            q, model = fresh(step[1], step[2] if len(step) > 2 else False)
            pool.append([q, model])
        elif op in COUNTED or op == "take" or (op == "tee" and step[2] < 0):
            idx, n = step[1], step[2]
            ent = pool[idx]
            if n < 0:
                try:
                    (ent[0].take(-1) if op == "take" else (ent[0].tee(-1) if op == "tee" else COUNTED[op](ent[0], -1)))
                    stats.fail("negative:%s:accepted" % op, {"history": hist}, "%s(-1) accepted" % op)
                    return stats
                except ValueError:
                    continue
            if op == "take":
                t = ent[0].take(n)
                pool.append([t, ent[1][:n]])
                ent[1] = ent[1][n:]
            else:
                COUNTED[op](ent[0], n)
                ent[1] = model_counted(op, ent[1], n)
        elif op == "tee":
            ent = pool.pop(step[1])
            for q in ent[0].tee(step[2]):
                pool.append([q, list(ent[1])])
        elif op in ("first_one", "one", "next"):
            ent = pool[step[1]]
            if op == "next":
                try:
                    m = next(iter(ent[0]))
                except StopIteration:
                    m = None
            else:
                m = getattr(ent[0], op)()
            want = ent[1][0] if ent[1] else None
            if (m is None) != (want is None) or (m is not None and key(m) != want):
                stats.fail("machine:%s" % op, {"history": hist}, "%s gave %s, model %s" % (op, m and key(m), want))
                return stats
            ent[1] = ent[1][1:]
        else:
            q, model = pool.pop(step[1])
            if op == "drain":
                ok = drain(q) == model
            elif op == "values":
                ok = list(q.values()) == [o for _, o in model]
            elif op == "locations":
                ok = list(q.locations()) == [p for p, _ in model]
            elif op == "items":
                ok = list(q.items()) == model
            else:
                m = q.last_one()
                ok = (m is None and not model) or (m is not None and model and key(m) == model[-1])
            if not ok:
                stats.fail("machine:%s" % op, {"history": hist}, "%s differs from the list model" % op)
                return stats
    for q, model in pool:
        if drain(q) != model:
            stats.fail("machine:final-drain", {"history": hist}, "a live query does not yield its model")
            break
    return stats
