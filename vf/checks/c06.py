"""C06 - only the documented error families ever escape; every call terminates."""
from __future__ import annotations

import copy
import random
import signal

from hypothesis import strategies as st

from .. import lib
from ..gen import docs as D
from ..gen import queries as Q
from ..gen.filters import FilterGen
from ..gen.render import Renderer
from ..run import Stats, hyp_run, mix, rng_for
from ..strict import short

import jsonpath
from jsonpath import (JSONPatch, JSONPatchError, JSONPathError, JSONPointer, JSONPointerError,
                      JSONPointerResolutionError, RelativeJSONPointer, RelativeJSONPointerError)

ID = "C06"
LEVEL = "exploration"
CLAIM = True
TECHNIQUE = ("fuzzing / property-based testing with a validity-predicate oracle: token soup, mutations of valid queries, "
             "arbitrary text and valid extension queries x a document panel; only the documented exception families may "
             "escape; per-case watchdog for termination; atheris coverage-guided campaigns in the thorough tier")
LEVEL_TEXT = ("Exploration by generated-input search with an outcome-validity oracle: compile / evaluate / str of any "
              "query text, JSONPointer and RelativeJSONPointer construction, resolution, and JSONPatch construction and "
              "application may only raise their documented error family, str(error) must work, and each call must "
              "finish under a watchdog. Termination is sampled, not proved.")
LEVEL_TEXT += ' The query probe evaluates through finditer, findall, match and query; the 41 shortest texts are probed on every panel document.'
LEVEL_NOTE = ("Trusted: CPython, re, Hypothesis, atheris. Termination is a sampling argument (bounded sizes, per-case "
              "watchdog of 20 s re-checked alone with 60 s); time inside the regex engine on caller-supplied patterns "
              "and inputs nested deeper than 100 levels are outside the claim and not generated.")
BUDGET_S = {"quick": 80, "thorough": 900}
RULE = ("Four query generators (token soup over the full lexer vocabulary plus hostile literals; character/token "
        "mutations of valid rendered queries; arbitrary Unicode text; valid standard+extension queries) each evaluated on "
        "a 14-document panel with every JSON type at every position; the same shapes for pointer text (both flags), "
        "relative-pointer text and patch op lists. Non-trivial = the text got past the lexer (compiled or was rejected by "
        "the parser / type checker) or a pointer/patch reached resolution/application; distinct by text (and document).")
ASSUMPTIONS = [
    "documents are passed as Python values, so json.JSONDecodeError from the loader (documented) cannot occur",
    "generated sizes are bounded: text <= 300 chars, documents <= 80 nodes, nesting <= 100",
    "a watchdog overrun is reported only if it reproduces alone with a longer limit",
]

PANEL = [
    {"a": 1, "b": "s", "c": [1, 2, {"a": "x"}], "d": {"a": None, "b": True}, "e": 1.5, "": 0, "1": [0], "é": "é"},
    [1, "two", 3.0, None, True, False, [1, [2, [3]]], {"a": {"b": {"c": 1}}}, "", [], {}],
    {"a": "string", "b": "abc"},
    {"a": [1, 2, 3], "b": [[1], [2]], "c": {"x": [1]}},
    {"a": {"a": {"a": {"a": 1}}}},
    [{"a": 1, "b": 2}, {"a": "1", "b": [1]}, {"a": None}, {"a": True, "b": {"c": 1}}, {"b": 0}],
    [[1, 2], ["a", "b"], [None], [True], [{}], [[]]],
    {"s": "abc", "n": 0, "t": True, "f": False, "z": None, "l": [], "o": {}},
    [],
    {},
    7,
    None,
    True,
    1.5,
]
CTX = {"a": 1, "s": "abc", "l": [1, "a", None], "o": {"a": 1}, "k": "a"}

BIG = "1" + "0" * 400
HUGE = "9" * 5000  # more digits than int() accepts (sys.get_int_max_str_digits)

SOUP = [
    "$", "@", "#", "_", "~", "^", "|", "&", ".", "..", "[", "]", "(", ")", ",", ":", "?", "*", "!", "&&", "||",
    "==", "!=", "<>", "<=", ">=", "<", ">", "=~", " in ", " contains ", " and ", " or ", "not ", "true", "false", "null",
    "nil", "none", "True", "False", "None", "Null", "undefined", "missing",
    "a", "b", "length", "count", "match", "foo", "a-b", "é", "😀",
    "length(", "count(", "match(", "search(", "value(", "typeof(", "isinstance(", "is(", "type(", "keys(", "foo(",
    "0", "1", "-1", "01", "-0", "1e2", "1E+2", "1e-2", "1e400", "-1e400", "1.5", "1.", ".5", "-", "+1",
    "9007199254740992", "-9007199254740992", "99999999999999999999", HUGE, "-" + HUGE, HUGE + ":", ":" + HUGE, BIG, "-" + BIG, BIG + ".5", "1e" + "9" * 30,
    "'a'", '"a"', "''", '""', "'a\\'b'", '"a\\"b"', "'\\u0041'", "'\\ud83d\\ude00'", "'\\ud800'", "'\\x'",
    "'\\\\'", "'\n'", "'a\tb'", "'\\u12'", "'\\uZZZZ'",
    "/a/", "/a/i", "/(/", "/[/", "/a/x", "/a+/ims", "/.*/", "/*/", "/\\/", "/(?P<n>a)(?P<n>b)/", "/a{2,1}/", "/(?i)a/", "/a{99999999999}/", "/a{1,99999999999}/", "/(?a)(?u)a/", "/(?L)a/", "'(?a)(?u)a'", "'(?L)a'", "/(?a)a/a", "/(?u)a/a", "'a{99999999999}'", "'('", "'[a'", "'a{2,1}'",
    ":", "::", "1:", ":1", "1:2", "1:2:3", "-1:", "::-1", "::0", "-:", "1e2:", ":-", "1:" + BIG, BIG + ":",
    " ", "\t", "\n",
]
JUNK = ["{", "}", ";", "%", "\\", "`", "\x00", "=", "'", '"', "/", "'unterminated", '"unterminated', "/a", "'\\'", "\x7f", "\ud800"]

PTR_SOUP = ["/", "~", "~0", "~1", "~2", "#", "-", "0", "1", "01", "+1", "-1", "a", "é", "\\u0041", "\\u12", "\\x", "\\",
            "%41", "%zz", "%e9", "%", " ", "99999999999999999999", HUGE, "-" + HUGE, "#" + HUGE, "0" + HUGE, BIG, "-" + BIG, "#0", "#a", "#-1", "~a", "\\ud800", "\\/",
            "😀", "\n", "\x00", "#" + BIG, "1_0", "１"]
REL_SOUP = ["0", "1", "2", "3", "10", "01", "+", "-", "+1", "-1", "+10", "-12", "+0", "-0", "#", "/", "a", "~0", "é", "\\u0041",
            "\\ud800", " ", "+" + BIG, BIG, HUGE, "+" + HUGE, "-" + HUGE, "/" + HUGE, "##", "#/", "/0", "/a", "\\", "%41"]


class Hang(Exception):
    pass


def _alarm(signum, frame):
    raise Hang()


# ---- watchdog for hangs inside C code (the regex engine holds the GIL and ignores signals):
# the current case is kept in a small memory-mapped file, and faulthandler's C-level watchdog thread
# kills the worker when no guarded call has completed for WD_SECONDS.  The parent (vf.run.run_tasks)
# then calls on_worker_death(), which re-runs that one case alone in a subprocess with a longer limit
# and reports a hang only if it reproduces.
WD_SECONDS = 25
_WD = {"n": 0, "mm": None, "trace": None, "pid": None}


def _wd_paths(pid):
    import os
    from ..run import ROOT
    d = os.path.join(ROOT, "scratch")
    os.makedirs(d, exist_ok=True)
    return os.path.join(d, "c06-%d.cur" % pid), os.path.join(d, "c06-%d.trace" % pid)


def _wd_note(api, case):
    import faulthandler
    import json
    import mmap
    import os
    if os.environ.get("VF_NO_WATCHDOG") or not _WD.get("enabled"):
        # only task worker processes arm the watchdog.  The main process must never arm it before it forks:
        # a forked child inherits faulthandler's "watchdog running" lock without the thread and would dead-lock
        # in its own dump_traceback_later() call.
        return
    pid = os.getpid()
    if _WD["pid"] != pid:
        cur, trace = _wd_paths(pid)
        with open(cur, "wb") as f:
            f.write(b"\0" * 65536)
        fh = open(cur, "r+b")
        _WD.update(n=0, mm=mmap.mmap(fh.fileno(), 65536), trace=open(trace, "w"), pid=pid)
    blob = json.dumps({"api": api, "case": case}, default=repr).encode("utf-8")[:65000]
    mm = _WD["mm"]
    mm[0:8] = b"%08d" % len(blob)
    mm[8:8 + len(blob)] = blob
    if _WD["n"] % 64 == 0:
        faulthandler.dump_traceback_later(WD_SECONDS, exit=True, file=_WD["trace"])
    _WD["n"] += 1


def _wd_done():
    """called when a task finishes normally: disarm and remove the per-process files"""
    import faulthandler
    import os
    if _WD["pid"] == os.getpid():
        faulthandler.cancel_dump_traceback_later()
        for p in _wd_paths(os.getpid()):
            try:
                os.remove(p)
            except OSError:
                pass
        _WD["pid"] = None


def on_worker_death(pid, task, exitcode):
    """vf.run hook: a worker died without a result.  If its last guarded call can be read back and it
    hangs again when run alone (60 s), that is a termination violation; anything else is a harness error."""
    import json
    import os
    import subprocess
    import sys
    from ..run import ROOT
    cur, trace = _wd_paths(pid)
    if not os.path.exists(cur):
        return None
    try:
        raw = open(cur, "rb").read()
        n = int(raw[:8])
        rec = json.loads(raw[8:8 + n].decode("utf-8"))
    except Exception:  # noqa: BLE001
        return None
    finally:
        for p in (cur, trace):
            try:
                os.remove(p)
            except OSError:
                pass
    st = Stats()
    case = rec["case"]
    rdir = os.path.join(ROOT, "scratch")
    probe = os.path.join(rdir, "c06-hang-probe-%d.json" % pid)
    json.dump({"case": case}, open(probe, "w"))
    env = dict(os.environ, VF_NO_WATCHDOG="1")
    try:
        subprocess.run([os.path.join(ROOT, "check"), "C06", "--replay", probe], cwd=ROOT, env=env, timeout=60,
                       stdout=subprocess.DEVNULL, stderr=subprocess.DEVNULL)
        st.excluded["worker killed by the watchdog but the case finishes when run alone (not reported)"] += 1
    except subprocess.TimeoutExpired:
        st.fail("hang:%s" % rec["api"], case, "%s did not finish: the worker was stopped by the watchdog after %d s without progress, and the same "
                "call run alone in a fresh process was still running after 60 s" % (rec["api"], WD_SECONDS))
    finally:
        try:
            os.remove(probe)
        except OSError:
            pass
    st.notes.append({"task": task["name"], "worker_died": exitcode})
    return st


def guarded(stats: Stats, api, case, fn, allowed):
    """Run fn(); record anything but `allowed` exception classes.  Returns ("ok", v) | ("err", exc)."""
    stats.ev()
    _wd_note(api, case)
    signal.signal(signal.SIGALRM, _alarm)
    signal.setitimer(signal.ITIMER_REAL, 20.0)
    try:
        v = fn()
        return "ok", v
    except Hang:
        stats.fail("hang:%s" % api, case, "%s did not finish within 20 s" % api)
        return "err", None
    except RecursionError as e:
        stats.fail("%s:RecursionError" % api, case, "%s: RecursionError on an input nested < 100 deep" % api)
        return "err", e
    except Exception as e:  # noqa: BLE001
        if not isinstance(e, allowed):
            stats.fail("%s:%s@%s" % (api, type(e).__name__, lib.exc_site(e)), case,
                       "%s raised %s: %s" % (api, type(e).__name__, short(str(e), 200)))
        else:
            try:
                str(e)
                repr(e)
            except Exception as e2:  # noqa: BLE001
                stats.fail("str(error):%s:%s" % (type(e).__name__, type(e2).__name__), case,
                           "str() of a raised %s failed with %r" % (type(e).__name__, e2))
        return "err", e
    finally:
        signal.setitimer(signal.ITIMER_REAL, 0)


# ------------------------------------------------------------------ queries


def probe_query(stats: Stats, text, docs, origin, env=None):
    env = env or lib.ENV
    case = {"kind": "query", "text": text, "origin": origin}
    k, path = guarded(stats, "compile", case, lambda: env.compile(text), JSONPathError)
    if k != "ok":
        try:
            list(env.lexer.tokenize(text))
            return "rejected-parser"
        except Exception:  # noqa: BLE001
            return "rejected-lexer"
    guarded(stats, "str(path)", case, lambda: str(path), ())
    evaluated = False
    for di in docs:
        doc = PANEL[di]
        if isinstance(doc, str):
            continue
        c2 = dict(case)
        c2["doc_index"] = di
        k2, res = guarded(stats, "evaluate", c2, lambda: list(path.finditer(copy.deepcopy(doc), filter_context=CTX)), JSONPathError)
        if k2 == "ok" and res:
            evaluated = True
            guarded(stats, "match.pointer", c2, lambda: [str(m.pointer()) for m in res[:5]], ())
        if di == docs[0]:
            # the other ways to evaluate a compiled query (same claim: matches or an error of the family)
            guarded(stats, "evaluate:findall", c2, lambda: path.findall(copy.deepcopy(doc), filter_context=CTX), JSONPathError)
            guarded(stats, "evaluate:match", c2, lambda: path.match(copy.deepcopy(doc), filter_context=CTX), JSONPathError)
            guarded(stats, "evaluate:query", c2, lambda: list(path.query(copy.deepcopy(doc), filter_context=CTX)), JSONPathError)
    return "evaluated" if evaluated else "compiled"


def soup_text(rng):
    n = rng.choice([1, 2, 3, 4, 5, 6, 8, 10, 14])
    sep = rng.choice(["", "", " "])
    toks = [rng.choice(JUNK) if rng.random() < 0.04 else rng.choice(SOUP) for _ in range(n)]
    if rng.random() < 0.6:
        toks.insert(0, rng.choice(["$", "$", "$[?", "$.", "$[", "$[?@", "$..", "^", "$[?("]))
    if rng.random() < 0.4:
        toks.append(rng.choice(["]", ")]", ")", "]]"]))
    return sep.join(toks)[:12000]


def valid_text(rng, ext=True):
    doc = rng.choice(PANEL[:8])
    fg = FilterGen(rng, doc, depth=2, ext=ext, ctx_data=CTX)
    kinds = ("n", "i", "s", "w", "f", "k") if ext else ("n", "i", "s", "w", "f")
    segs, _ = Q.gen_segments(rng, doc, nmax=3, kinds=kinds, filt=fg)
    q = ["q", "^" if (ext and rng.random() < 0.1) else "$", segs]
    r = Renderer(rng, ext={"words": ext, "lg": ext, "alias_lits": ext, "bare_names": ext, "omit_root": ext})
    if ext and rng.random() < 0.15:
        segs2, _ = Q.gen_segments(rng, doc, nmax=2)
        return r.compound(q, [(rng.choice("|&"), ["q", "$", segs2])])
    return r.query(q, top=True)


def mutate(rng, text):
    n = rng.choice([1, 1, 1, 2, 3])
    for _ in range(n):
        if not text:
            text = rng.choice(SOUP)
            continue
        i = rng.randrange(len(text))
        r = rng.random()
        if r < 0.25:
            text = text[:i] + text[i + 1:]
        elif r < 0.5:
            text = text[:i] + rng.choice(SOUP) + text[i:]
        elif r < 0.65:
            text = text[:i] + rng.choice(SOUP) + text[i + 1:]
        elif r < 0.75:
            j = rng.randrange(i, min(len(text), i + 6) + 1)
            text = text[:j] + text[i:j] + text[j:]
        elif r < 0.85:
            text = text[:i]
        else:
            swaps = {"[": "(", "]": ")", "(": "[", ")": "]", "'": '"', '"': "'", "&": "|", "|": "&", "=": "!", "<": ">"}
            text = text[:i] + swaps.get(text[i], text[i].upper()) + text[i + 1:]
    return text[:600]


@st.composite
def q_cases(draw):
    mode = draw(st.sampled_from(["soup", "soup", "mutation", "mutation", "text", "valid", "valid"]))
    seed = draw(st.integers(0, 2**32 - 1))
    txt = draw(st.text(max_size=40)) if mode == "text" else ""
    return mode, seed, txt


def t_queries(seed, n):
    stats = Stats()
    seen = set()

    def body(x):
        mode, s, txt = x
        rng = rng_for(s)
        if mode == "soup":
            text = soup_text(rng)
        elif mode == "mutation":
            text = mutate(rng, valid_text(rng, ext=rng.random() < 0.6))
        elif mode == "valid":
            text = valid_text(rng)
        else:
            text = txt if rng.random() < 0.5 else rng.choice(["$", "$[?", "$.", "$["]) + txt
        stats.case()
        docs = list(range(len(PANEL))) if mode == "valid" else rng.sample(range(len(PANEL)), 5)
        outcome = probe_query(stats, text, docs, mode)
        stats.cls("q:%s:%s" % (mode, outcome))
        if outcome != "rejected-lexer":
            stats.nt("q", text)
        if len(stats.samples) < 5 and outcome == "evaluated" and mode != "valid":
            stats.sample({"query": text, "mode": mode, "outcome": outcome})

    hyp_run(q_cases(), body, n, seed, stats)
    return stats


# ------------------------------------------------------------------ every registered function x every kind of argument value

TYPE_VALUES = [None, True, False, 0, 1, -1, 1.5, "", "a", "abc", "number", "(", "a{99999999999}", "(?a)(?u)a", "(?L)a",
               # patterns whose last character opens something: a lone backslash, an open class, an open group, an open quantifier, with and without a dot
               "a.\\", "\\", ".\\", "[.", "a.[", "(a.", "a.{", "a.{1,", "[\\", ".*+", "a.|", [], [1], ["a"], ["number"], [[1]],
               {}, {"a": 1}, {"number": 1}]


def t_functions(shard=0, nshards=1):
    """data-dependent failures: each function (standard and non-standard) with arguments that are literals,
    singular queries and non-singular queries resolving to every kind of JSON value"""
    stats = Stats()
    nv = len(TYPE_VALUES)
    items = [{"v": v, "t": TYPE_VALUES[(i * 7 + j * 5 + 3) % nv]} for i, v in enumerate(TYPE_VALUES) for j in range(4)]
    doc = {"items": items, "k": "number"}
    fns1 = ["length", "count", "value", "typeof", "type", "keys"]
    fns2 = ["match", "search", "isinstance", "is"]
    args = ["@.v", "@.t", "@", "@.*", "@.v.*", "@..v", "$.k", "$.items[0].v", "@.missing", "'number'", "1", "null", "true", "'('", "_.l", "#"]
    texts = []
    for f in fns1:
        for a in args:
            texts += ["$.items[?%s(%s)]" % (f, a), "$.items[?%s(%s) == @.t]" % (f, a), "$.items[?!%s(%s)]" % (f, a),
                      "$.items[?%s(%s) in @.t]" % (f, a), "$.items[?%s(%s) < 1 || %s(%s) >= 'a']" % (f, a, f, a)]
    for f in fns2:
        for a in args:
            for b in args:
                texts += ["$.items[?%s(%s, %s)]" % (f, a, b), "$.items[?%s(%s, %s) == true]" % (f, a, b)]
    ops = ["==", "!=", "<", "<=", ">", ">=", "<>", "in", "contains", "=~"]
    for op in ops:
        for a in ("@.v", "@.t", "@", "#", "_.l", "$.k", "[1, 'a']", "'a'", "1", "null", "undefined", "/a/"):
            for b in ("@.t", "@.v", "[1, 'a']", "'a'", "1", "/a/i", "undefined"):
                texts.append("$.items[?%s %s %s]" % (a, op, b))
    n = 0
    envs = [lib.ENV, jsonpath.JSONPathEnvironment(filter_caching=False)]
    for ti, text in enumerate(texts):
        if ti % nshards != shard:
            continue
        for env in envs:
            case = {"kind": "fnquery", "text": text, "env": envs.index(env), "origin": "functions"}
            k, path = guarded(stats, "compile", case, lambda: env.compile(text), JSONPathError)
            if k == "ok":
                guarded(stats, "evaluate", case, lambda: list(path.finditer(doc, filter_context=CTX)), JSONPathError)
                guarded(stats, "evaluate", case, lambda: list(path.finditer({"items": {"x": items[5], "y": items[40]}, "k": [1]}, filter_context=CTX)), JSONPathError)
            n += 1
        stats.nt("fn", text)
    stats.subspaces.append({"name": "10 functions and 10 operators x argument forms x 84 (value, type-name) pairs in the document, caching on/off, shard %d/%d" % (shard, nshards),
                            "size": n, "exhaustive": True})
    stats.sample({"query": texts[7], "document": "items = all pairs of %d values" % len(TYPE_VALUES)})
    return stats


# ------------------------------------------------------------------ deep nesting (run outside Hypothesis)


def t_deep():
    stats = Stats()
    for depth in (20, 60, 99):
        texts = [
            "$[?" + "(" * depth + "@.a" + ")" * depth + "]",
            "$[?" + "!" * 1 + "(" * depth + "@.a==1" + ")" * depth + "]",
            "$" + "[?@" * depth + ".a" + "]" * depth,
            "$" + ".a" * depth,
            "$" + "..a" * depth,
            "$" + "[0]" * depth,
            "$[?length(value(@" + ".a" * depth + "))==1]",
            "$[?" + "@.a==1&&" * depth + "@.b]",
            "$[?" + "!(" * depth + "@.a" + ")" * depth + "]",
        ]
        deep_doc = cur = {}
        for _ in range(depth):
            cur["a"] = {}
            cur = cur["a"]
        deep_arr = cur2 = []
        for _ in range(depth):
            cur2.append([])
            cur2 = cur2[0]
        for text in texts:
            case = {"kind": "query", "text": text, "origin": "deep-%d" % depth}
            k, path = guarded(stats, "compile", case, lambda: jsonpath.compile(text), JSONPathError)
            if k == "ok":
                # `$..a..a..` x depth on a depth-deep document is combinatorial legitimate work, not a hang
                for doc in ((PANEL[0],) if text.startswith("$..a") else (deep_doc, deep_arr, PANEL[0])):
                    guarded(stats, "evaluate", case, lambda: list(path.finditer(doc)), JSONPathError)
            stats.nt("deep", text)
        ptr = "/a" * depth
        case = {"kind": "pointer", "text": ptr, "origin": "deep-%d" % depth}
        guarded(stats, "pointer.resolve", case, lambda: JSONPointer(ptr).resolve(deep_doc), JSONPointerResolutionError)
        guarded(stats, "evaluate", {"kind": "query", "text": "$..*", "origin": "deep-doc"}, lambda: jsonpath.findall("$..*", deep_doc), JSONPathError)
    # numbers that do not fit a double, met by every comparison operator and function, from either side
    bigdoc = [10 ** 400, -(10 ** 400), 10 ** 309, 2 ** 1024, 1.5, -1.5, 1e308, 0, 1, "a", None, True, [10 ** 400], {"a": 10 ** 400}]
    big = "1" + "0" * 400
    for text in ["$[?@ < 1.5]", "$[?@ > 1.5]", "$[?@ <= -1.5]", "$[?@ >= 1e308]", "$[?@ == 1.5]", "$[?@ != 1e308]", "$[?1.5 < @]", "$[?1e308 >= @]", "$[?@ < %s]" % big,
                 "$[?@ > -%s]" % big, "$[?@ == %s]" % big, "$[?%s <= @]" % big, "$[?@ < %s.5]" % big[:300], "$[?@[0] < 1.5]", "$[?@.a > 0.5]", "$[?@ < $[4]]", "$[?$[0] < @]",
                 "$[?@ in [1.5, %s]]" % big, "$[?length(@) < 1.5]", "$[?count(@.*) < %s]" % big, "$[?value(@[0]) < 2.5]", "$[?@ < 2.5 && @ > -%s]" % big]:
        case = {"kind": "query", "text": text, "origin": "big-numbers"}
        k, path = guarded(stats, "compile", case, lambda: jsonpath.compile(text), JSONPathError)
        if k == "ok":
            guarded(stats, "evaluate", case, lambda: list(path.finditer(bigdoc)), JSONPathError)
            guarded(stats, "evaluate", case, lambda: path.findall([1.5, 2.5, 1e308, -1e308, 0.1]), JSONPathError)
        stats.nt("big-numbers", text)
    # the shortest texts there are, on every panel document, through every entry point
    for text in ["$", "", " ", "$ ", " $", "^", "_", "@", "#", "~", "*", "..", ".", "$.", "$..", "$[", "$]", "[", "]", "$ | $", "$ & $", "^ | ^", "|", "&", "$ |", "| $",
                 "$[?@]", "$[?$]", "$[?^]", "$[?_]", "$[?#]", "$[?!@]", "$[?@==@]", "$[?$==$]", "$[?^==^]", "$[?_==_]", "$[?#==#]", "$[~]", "^[~]", "$..~", "$.~"]:
        probe_query(stats, text, list(range(len(PANEL))), "shortest")
        stats.nt("shortest", text)
    stats.subspaces.append({"name": "nesting depth 20/60/99 of parentheses, negations, nested filters, segments, functions, documents; 41 shortest texts x panel x entry points",
                            "size": stats.evaluations, "exhaustive": True})
    return stats


# ------------------------------------------------------------------ pointers


def probe_pointer(stats: Stats, text, ue, ud, rng, origin):
    case = {"kind": "pointer", "text": text, "unicode_escape": ue, "uri_decode": ud, "origin": origin}
    k, p = guarded(stats, "JSONPointer()", case, lambda: JSONPointer(text, unicode_escape=ue, uri_decode=ud), JSONPointerError)
    if k != "ok":
        return "rejected"
    guarded(stats, "str(pointer)", case, lambda: (str(p), repr(p), hash(p), p.parent(), p == p), ())
    for di in rng.sample(range(len(PANEL)), 4):
        doc = PANEL[di]
        c2 = dict(case)
        c2["doc_index"] = di
        guarded(stats, "pointer.resolve", c2, lambda: p.resolve(doc), JSONPointerResolutionError)
        guarded(stats, "pointer.resolve(default)", c2, lambda: p.resolve(doc, default=None), JSONPointerResolutionError)
        guarded(stats, "pointer.resolve_parent", c2, lambda: p.resolve_parent(doc), JSONPointerResolutionError)
        guarded(stats, "pointer.exists", c2, lambda: p.exists(doc), ())
        guarded(stats, "jsonpath.resolve", c2, lambda: jsonpath.resolve(text, doc, unicode_escape=ue, uri_decode=ud),
                JSONPointerError)
    return "accepted"


def probe_relative(stats: Stats, rel, base, ue, origin):
    case = {"kind": "relative", "text": rel, "base": base, "unicode_escape": ue, "origin": origin}
    k, r = guarded(stats, "RelativeJSONPointer()", case, lambda: RelativeJSONPointer(rel, unicode_escape=ue),
                   (RelativeJSONPointerError, JSONPointerError))
    out = "rejected"
    if k == "ok":
        out = "parsed"
        guarded(stats, "str(relative)", case, lambda: (str(r), r == r), ())
        k2, _ = guarded(stats, "relative.to", case, lambda: r.to(base, unicode_escape=ue),
                        (RelativeJSONPointerError, JSONPointerError))
        if k2 == "ok":
            out = "applied"
    kb, b = guarded(stats, "JSONPointer()", case, lambda: JSONPointer(base, unicode_escape=ue), JSONPointerError)
    if kb == "ok":
        guarded(stats, "pointer.to", case, lambda: b.to(rel, unicode_escape=ue), (RelativeJSONPointerError, JSONPointerError))
    return out


def ptr_text(rng, valid_bias=0.5):
    n = rng.choice([0, 1, 1, 2, 2, 3, 4])
    if rng.random() < valid_bias:
        return "".join("/" + rng.choice(PTR_SOUP) for _ in range(n))
    return "".join(rng.choice(PTR_SOUP + ["/"]) for _ in range(n + 1))


@st.composite
def p_cases(draw):
    return (draw(st.sampled_from(["ptr", "ptr", "rel", "text"])), draw(st.integers(0, 2**32 - 1)),
            draw(st.text(max_size=20)), draw(st.booleans()), draw(st.booleans()))


def t_pointers(seed, n):
    stats = Stats()

    def body(x):
        mode, s, txt, ue, ud = x
        rng = rng_for(s)
        stats.case()
        if mode == "rel":
            if rng.random() < 0.6:
                rel = rng.choice(["0", "1", "2", "3", "10", "01"]) + rng.choice(["", "", "+1", "-1", "+10", "-12", "+0", "-0", "+" + BIG])
                rel += rng.choice(["", "#", "#", "##"]) if rng.random() < 0.4 else ptr_text(rng, 0.9)
            else:
                rel = "".join(rng.choice(REL_SOUP) for _ in range(rng.choice([1, 2, 2, 3, 4])))
            base = ptr_text(rng, 0.9)
            out = probe_relative(stats, rel, base, ue, "rel-soup")
            stats.cls("rel:" + out)
            if out != "rejected":
                stats.nt("rel", rel, base, ue)
            if len(stats.samples) < 3 and out == "applied":
                stats.sample({"relative": rel, "base": base})
        else:
            text = ptr_text(rng) if mode == "ptr" else (("/" if rng.random() < 0.5 else "") + txt)
            out = probe_pointer(stats, text, ue, ud, rng, mode)
            stats.cls("ptr:" + out)
            if out == "accepted":
                stats.nt("ptr", text, ue, ud)
                if len(stats.samples) < 3:
                    stats.sample({"pointer": text, "unicode_escape": ue, "uri_decode": ud})

    hyp_run(p_cases(), body, n, seed, stats)
    return stats


# ------------------------------------------------------------------ patches

OPS = ["add", "remove", "replace", "move", "copy", "test", "addne", "addap"]
ODD = [None, 1, "add", [], ["op"], {}, {"op": None}, {"op": 1}, {"op": ["add"]}, {"op": "nope", "path": ""},
       {"op": "add"}, {"op": "add", "path": 1, "value": 1}, {"op": "add", "path": None, "value": 1},
       {"op": "move", "path": "/a"}, {"op": "copy", "from": 1, "path": "/a"}, {"op": "test", "path": "/a"},
       {"op": "add", "path": "a", "value": 1}, {"op": "add", "path": "/\\u12", "value": 1}, {"path": "/a", "value": 1}]


def gen_patch(rng):
    ops = []
    for _ in range(rng.choice([1, 1, 2, 3, 4])):
        if rng.random() < 0.08:
            ops.append(copy.deepcopy(rng.choice(ODD)))
            continue
        name = rng.choice(OPS)
        op = {"op": name, "path": ptr_text(rng, 0.95)}
        if name in ("add", "replace", "test", "addne", "addap"):
            op["value"] = copy.deepcopy(rng.choice([1, "s", None, True, [1], {"a": 1}, PANEL[3]]))
        if name in ("move", "copy"):
            op["from"] = ptr_text(rng, 0.85)
        if rng.random() < 0.1:
            op.pop(rng.choice(list(op)))
        if rng.random() < 0.1:
            op["extra"] = 1
        ops.append(op)
    return ops


def t_patches(seed, n):
    stats = Stats()

    def body(x):
        s, ue, ud = x
        rng = rng_for(s)
        stats.case()
        ops = gen_patch(rng)
        case = {"kind": "patch", "ops": ops, "unicode_escape": ue, "uri_decode": ud, "origin": "patch-soup"}
        k, p = guarded(stats, "JSONPatch()", case, lambda: JSONPatch(copy.deepcopy(ops), unicode_escape=ue, uri_decode=ud),
                       JSONPatchError)
        stats.cls("patch:" + ("built" if k == "ok" else "rejected"))
        if k != "ok":
            return
        stats.nt("patch", repr(ops), ue, ud)
        guarded(stats, "patch.asdicts", case, lambda: p.asdicts(), ())
        applied = 0
        for di in rng.sample(range(len(PANEL)), 5):
            doc = copy.deepcopy(PANEL[di])
            c2 = dict(case)
            c2["doc_index"] = di
            k2, _ = guarded(stats, "patch.apply", c2, lambda: p.apply(doc), JSONPatchError)
            applied += k2 == "ok"
            guarded(stats, "jsonpath.patch.apply", c2,
                    lambda: jsonpath.patch.apply(copy.deepcopy(ops), copy.deepcopy(PANEL[di]), unicode_escape=ue, uri_decode=ud),
                    JSONPatchError)
        stats.cls("patch:applied" if applied else "patch:never-applied")
        if len(stats.samples) < 3 and applied:
            stats.sample({"ops": short(ops, 240)})

    hyp_run(st.tuples(st.integers(0, 2**32 - 1), st.booleans(), st.booleans()), body, n, seed, stats)
    return stats


# ------------------------------------------------------------------ interface


def _finishing(fn):
    import functools

    @functools.wraps(fn)
    def w(*a, **k):
        _WD["enabled"] = True
        try:
            return fn(*a, **k)
        finally:
            _wd_done()
            _WD["enabled"] = False
    return w


t_queries, t_pointers, t_patches, t_deep, t_functions = map(_finishing, (t_queries, t_pointers, t_patches, t_deep, t_functions))


def tasks(tier, seed):
    nq, npz, npa = (12000, 12000, 8000) if tier == "quick" else (150000, 150000, 100000)
    ts = [{"name": "deep", "fn": "t_deep"}]
    ts += [{"name": "functions-%d" % k, "fn": "t_functions", "kw": {"shard": k, "nshards": 4}} for k in range(4)]
    for k in range(8):
        ts.append({"name": "queries-%d" % k, "fn": "t_queries", "kw": {"seed": mix(seed, ID, "q", k), "n": nq}})
    for k in range(4):
        ts.append({"name": "pointers-%d" % k, "fn": "t_pointers", "kw": {"seed": mix(seed, ID, "p", k), "n": npz}})
    for k in range(4):
        ts.append({"name": "patches-%d" % k, "fn": "t_patches", "kw": {"seed": mix(seed, ID, "j", k), "n": npa}})
    if tier == "thorough":
        ts.append({"name": "atheris", "fn": "t_atheris", "kw": {"seed": seed, "seconds": 240}})
    return ts


def t_atheris(seed, seconds):
    from ..fuzz import driver
    return driver.run_campaigns(seed, seconds)


def replay(case):
    stats = Stats()
    rng = random.Random(0)
    kind = case.get("kind")
    if kind == "fnquery":
        return t_functions()
    if kind == "query":
        docs = [case["doc_index"]] if "doc_index" in case else list(range(len(PANEL)))
        probe_query(stats, case["text"], docs, "replay")
    elif kind == "pointer":
        case2 = dict(case)
        k, p = guarded(stats, "JSONPointer()", case2,
                       lambda: JSONPointer(case["text"], unicode_escape=case["unicode_escape"], uri_decode=case["uri_decode"]),
                       JSONPointerError)
        if k == "ok":
            guarded(stats, "str(pointer)", case2, lambda: (str(p), repr(p), hash(p), p.parent(), p == p), ())
            for di in ([case["doc_index"]] if "doc_index" in case else range(len(PANEL))):
                doc = PANEL[di]
                c2 = dict(case2)
                c2["doc_index"] = di
                guarded(stats, "pointer.resolve", c2, lambda: p.resolve(doc), JSONPointerResolutionError)
                guarded(stats, "pointer.resolve(default)", c2, lambda: p.resolve(doc, default=None), JSONPointerResolutionError)
                guarded(stats, "pointer.resolve_parent", c2, lambda: p.resolve_parent(doc), JSONPointerResolutionError)
                guarded(stats, "pointer.exists", c2, lambda: p.exists(doc), ())
                guarded(stats, "jsonpath.resolve", c2, lambda: jsonpath.resolve(
                    case["text"], doc, unicode_escape=case["unicode_escape"], uri_decode=case["uri_decode"]), JSONPointerError)
    elif kind == "relative":
        probe_relative(stats, case["text"], case["base"], case["unicode_escape"], "replay")
    elif kind == "patch":
        ops, ue, ud = case["ops"], case["unicode_escape"], case["uri_decode"]
        k, p = guarded(stats, "JSONPatch()", case, lambda: JSONPatch(copy.deepcopy(ops), unicode_escape=ue, uri_decode=ud), JSONPatchError)
        if k == "ok":
            guarded(stats, "patch.asdicts", case, lambda: p.asdicts(), ())
            for di in ([case["doc_index"]] if "doc_index" in case else range(len(PANEL))):
                c2 = dict(case)
                c2["doc_index"] = di
                guarded(stats, "patch.apply", c2, lambda: p.apply(copy.deepcopy(PANEL[di])), JSONPatchError)
                guarded(stats, "jsonpath.patch.apply", c2, lambda: jsonpath.patch.apply(
                    copy.deepcopy(ops), copy.deepcopy(PANEL[di]), unicode_escape=ue, uri_decode=ud), JSONPatchError)
    return stats


def shrink(case, pred):
    from ..run import shrink_value
    if case.get("kind") in ("query", "pointer", "relative"):
        def p_text(t):
            c = dict(case)
            c["text"] = t
            return pred(c)
        t = case["text"]
        # delete chunks then single characters
        step = max(1, len(t) // 2)
        while step >= 1:
            i = 0
            while i < len(t):
                cand = t[:i] + t[i + step:]
                if cand != t and p_text(cand):
                    t = cand
                else:
                    i += step
            step //= 2
        case = dict(case)
        case["text"] = t
        return case
    if case.get("kind") == "patch":
        def p_ops(o):
            c = dict(case)
            c["ops"] = o
            return pred(c)
        case = dict(case)
        case["ops"] = shrink_value(case["ops"], p_ops, budget_s=10)
    return case
