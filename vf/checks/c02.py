"""C02 - RFC 9535 filter expressions select exactly the nodes the RFC makes true."""
from __future__ import annotations

import itertools
import random

from hypothesis import strategies as st

from ..gen import docs as D
from ..gen import queries as Q
from ..gen.filters import FilterGen
from ..gen.render import Renderer, canonical
from ..oracle import judge_query
from ..run import Stats, hyp_run, mix, rng_for
from ..strict import canon, short

ID = "C02"
LEVEL = "exploration"
CLAIM = True
TECHNIQUE = 'property-based testing: type-directed generated filter expressions vs an independent RFC 9535 reference evaluator; exhaustive comparison table over a 33-value universe'
LEVEL_TEXT = 'Exploration by generated-input search: well-typed filter ASTs (tests, comparisons, !, &&, ||, the five functions, nested filters) generated against the candidate values and compared with the reference evaluator; the comparison table (33 values incl. absent, look-alikes and nested containers) x 6 operators x literal/@/$ operand forms, existence-on-every-kind and $/@ binding at nesting depth 1-3 are enumerated exhaustively.'
LEVEL_TEXT += " Also: text-level mutants of rendered filter queries, classified by an independent hand-written RFC 9535 parser and the reference typing checker; every well-formed, well-typed mutant must compile and select exactly what the reference evaluator selects from the reference's own AST."
BUDGET_S = {"quick": 80, "thorough": 900}
RULE = ("Well-typed-by-construction RFC 9535 filter ASTs (existence tests, comparisons among literals, "
        "singular @/$ queries and ValueType function results, !, &&, ||, parentheses, length/count/value/"
        "match/search, nested filters with $ and @ at depth) generated against the candidate values, placed "
        "as child/descendant/multi-selector filter selectors, rendered in several spellings and compared "
        "node-for-node with the reference evaluator. Non-trivial = the filter keeps some candidates and "
        "drops others, or the reference recorded a Nothing / mixed-type / bool-vs-number comparison; "
        "distinct by (canonical AST, document). Exhaustive: comparison table over a 33-value universe "
        "(absent, null, booleans, int/float/bool look-alikes, strings, nested arrays/objects) for every "
        "ordered pair x 6 operators x operand forms {literal, @-query, $-query, value(query)}.")
ASSUMPTIONS = [
    "reference semantics transcribed from RFC 9535 2.3.5 and 2.4 (validated on the RFC's filter and comparison-table examples in preflight)",
    "regular expressions stay in the dialect common to Python re and I-Regexp; both sides use Python re for matching",
    "number literals stay in the I-JSON exact range",
]

KNOWN_QUIRKS = []


def judge(stats, ast, doc, text, origin):
    return judge_query(stats, ast, doc, text, origin, KNOWN_QUIRKS, entry_points=False)


def filters_in(ast):
    for seg in ast[2]:
        for sel in seg[1]:
            if sel[0] == "f":
                yield sel[1]


def walk_expr(e):
    yield e
    if not isinstance(e, list):
        return
    k = e[0]
    if k in ("or", "and"):
        yield from walk_expr(e[1])
        yield from walk_expr(e[2])
    elif k in ("not", "par"):
        yield from walk_expr(e[1])
    elif k == "cmp":
        yield from walk_expr(e[2])
        yield from walk_expr(e[3])
    elif k == "test":
        yield from walk_expr(e[1])
    elif k == "call":
        for a in e[2]:
            yield from walk_expr(a)
    elif k == "q":
        for seg in e[2]:
            for sel in seg[1]:
                if sel[0] == "f":
                    yield ["nested-filter"]
                    yield from walk_expr(sel[1])


def classify(stats, ast, ctx, expected, doc):
    kinds = set()
    for f in filters_in(ast):
        for e in walk_expr(f):
            if isinstance(e, list) and e:
                if e[0] == "call":
                    kinds.add("fn:" + e[1])
                elif e[0] == "q":
                    kinds.add("root:" + e[1])
                elif e[0] == "cmp":
                    kinds.add("op:" + e[1])
                else:
                    kinds.add(e[0])
    for k in kinds:
        stats.cls(k)
    for ev in ctx.events:
        stats.cls("ev:" + ev)
    return kinds


@st.composite
def cases(draw):
    return draw(D.containers(max_leaves=14)), draw(st.integers(0, 2**32 - 1))


def count_candidates(ast, doc):
    """candidates seen by the first filter-bearing segment (for the 'some kept, some dropped' rule)"""
    from ..ref import rfc9535 as ref
    nl = [((), doc)]
    ctx = ref.Ctx(doc)
    for seg in ast[2]:
        if any(s[0] == "f" for s in seg[1]):
            n = 0
            for _, v in (nl if seg[0] == "c" else [x for p, vv in nl for x in ref.descend(p, vv)]):
                if isinstance(v, (dict, list)):
                    n += len(v)
            return n
        nl = ref.apply_segment(seg, nl, ctx)
    return 0


def t_random(seed, n, nspell, depth):
    stats = Stats()

    def body(x):
        doc, s = x
        rng = rng_for(s)
        fg = FilterGen(rng, doc, depth=depth)
        # leading plain segments, then a filter-bearing segment, maybe trailing ones
        lead, cur = Q.gen_segments(rng, doc, nmax=rng.choice([0, 0, 1, 2]), desc_p=0.15) if rng.random() < 0.6 else ([], [doc])
        cur = cur or [doc]
        desc = rng.random() < 0.2
        pool = Q._descendants(cur) if desc else cur
        sels = [["f", fg(rng, pool)]]
        if rng.random() < 0.2:
            sels.append(Q.gen_selector(rng, pool))
        if rng.random() < 0.1:
            sels.insert(0, ["f", fg(rng, pool)])
        segs = lead + [["d" if desc else "c", sels]]
        if rng.random() < 0.2:
            segs.append(["c", [rng.choice([["w"], ["n", "a"], ["i", 0]])]])
        ast = ["q", "$", segs]
        stats.case()
        first = None
        for j in range(nspell):
            text = Renderer(rng if j else None).query(ast, top=True)
            exp, ctx = judge(stats, ast, doc, text, "random")
            first = first or (exp, ctx)
        exp, ctx = first
        if exp is None:
            return
        classify(stats, ast, ctx, exp, doc)
        ncand = count_candidates(ast, doc)
        nt = (0 < len(exp) < ncand) or bool(ctx.events & {"cmp.nothing", "lt.mixed-or-unordered", "eq.bool-vs-number",
                                                           "test.falsy-value", "test.bare-current.on-primitive"})
        if 0 < len(exp) < ncand:
            stats.cls("some-kept-some-dropped")
        if nt:
            stats.nt(canonical(ast), canon(doc))
            if len(stats.samples) < 6:
                stats.sample({"query": text, "document": short(doc, 200), "selected": len(exp), "candidates": ncand})

    hyp_run(cases(), body, n, seed, stats)
    return stats


# ------------------------------------------------------------------ exhaustive comparison table

ABSENT = "<absent>"
UNIVERSE = [
    ABSENT, None, True, False, 0, 1, -1, 2, 0.0, 1.0, 1.5, "", "a", "b", "1", "true", "é", "😀",
    [], [1], [True], [1.0], [[1]], [[True]], [1, 2], {}, {"a": 1}, {"a": True}, {"a": 1.0},
    {"a": 1, "b": 2}, {"b": 2, "a": 1}, {"a": [1]}, {"a": [True]},
]
OPS = ["==", "!=", "<", "<=", ">", ">="]


def is_prim(v):
    return v is not ABSENT and not isinstance(v, (list, dict))


def t_table(rows):
    stats = Stats()
    n = 0
    for li in rows:
        L = UNIVERSE[li]
        for R in UNIVERSE:
            cand = {}
            top = {}
            if L is not ABSENT:
                cand["l"] = L
                top["l"] = L
            if R is not ABSENT:
                cand["r"] = R
                top["r"] = R
            doc = dict(top)
            doc["c"] = [cand]
            forms_l = [("@", ["q", "@", [["c", [["n", "l"]]]]]), ("$", ["q", "$", [["c", [["n", "l"]]]]]),
                       ("value", ["call", "value", [["q", "@", [["c", [["n", "l"]]]]]]])]
            forms_r = [("@", ["q", "@", [["c", [["n", "r"]]]]]), ("$", ["q", "$", [["c", [["n", "r"]]]]]),
                       ("value", ["call", "value", [["q", "@", [["d", [["n", "r"]]]]]]])]
            if is_prim(L):
                forms_l.append(("lit", ["lit", L]))
            if is_prim(R):
                forms_r.append(("lit", ["lit", R]))
            for op in OPS:
                for (fl, el), (fr, er) in itertools.product(forms_l, forms_r):
                    ast = ["q", "$", [["c", [["n", "c"]]], ["c", [["f", ["cmp", op, el, er]]]]]]
                    text = Renderer(None).query(ast, top=True)
                    judge(stats, ast, doc, text, "table")
                    n += 1
                stats.nt("table", canon(L), op, canon(R))
    stats.cls("x:comparison-table")
    stats.subspaces.append({"name": "comparison table rows %s: ordered pairs x 6 operators x operand forms" % (rows,),
                            "size": n, "exhaustive": True})
    stats.sample({"query": text, "document": short(doc)})
    return stats


def t_existence():
    """Bare queries are existence tests regardless of the value found; @ on every kind of candidate."""
    stats = Stats()
    vals = [None, True, False, 0, 1, 0.0, "", "a", [], [0], {}, {"a": None}]
    n = 0
    for wrap in ("arr", "obj"):
        doc = list(vals) if wrap == "arr" else {"k%d" % i: v for i, v in enumerate(vals)}
        exprs = [
            ["test", ["q", "@", []]], ["not", ["test", ["q", "@", []]]],
            ["test", ["q", "@", [["c", [["w"]]]]]], ["test", ["q", "@", [["c", [["n", "a"]]]]]],
            ["cmp", "==", ["q", "@", []], ["q", "@", []]],
            ["cmp", "==", ["call", "count", [["q", "@", []]]], ["lit", 1]],
            ["cmp", "==", ["call", "value", [["q", "@", []]]], ["q", "@", []]],
            ["cmp", ">=", ["call", "length", [["q", "@", []]]], ["lit", 0]],
            ["cmp", "==", ["call", "length", [["q", "@", []]]], ["call", "length", [["q", "@", []]]]],
            ["cmp", "==", ["call", "count", [["q", "@", [["c", [["w"]]]]]]], ["lit", 0]],
            ["cmp", "==", ["call", "value", [["q", "@", [["c", [["w"]]]]]]], ["lit", 0]],
            ["call", "match", [["q", "@", []], ["lit", "a?"]]], ["call", "search", [["q", "@", []], ["lit", ""]]],
            ["test", ["q", "$", [["c", [["i", 0]]]]]], ["test", ["q", "$", [["c", [["n", "k2"]]]]]],
        ]
        for e in exprs:
            for seg in ("c", "d"):
                ast = ["q", "$", [[seg, [["f", e]]]]]
                for r in (None, random.Random(n)):
                    text = Renderer(r).query(ast, top=True)
                    judge(stats, ast, doc, text, "existence")
                    n += 1
                stats.nt("existence", canon(e), seg, wrap)
    stats.subspaces.append({"name": "existence / function-of-@ expressions x every JSON kind of candidate", "size": n,
                            "exhaustive": True})
    return stats


def t_regex():
    """match = whole string, search = substring, on subjects with line feeds at either end (no `.` vs CR disagreement involved)"""
    stats = Stats()
    subjects = ["ab", "ab\n", "\nab", "a\nb", "abc", "", "\n", "ab\n\n", "xab", "AB", "a", "b", 1, None, ["ab"]]
    patterns = ["ab", "a.b", "ab?", "(ab)", "a|ab", "", "a*b*", "[a-b]+", "ab\n", "a{1,2}b", "(a|b)(a|b)", "(", "[a"]
    n = 0
    doc = [{"s": x} for x in subjects] + [{"s": "ab", "p": "ab"}, {"s": "ab\n", "p": "ab"}, {"s": "ab", "p": "a."}, {"s": "ab", "p": 1}]
    for fn in ("match", "search"):
        for pat in patterns:
            for e in (["call", fn, [["q", "@", [["c", [["n", "s"]]]]], ["lit", pat]]],
                      ["not", ["call", fn, [["q", "@", [["c", [["n", "s"]]]]], ["lit", pat]]]],
                      ["call", fn, [["q", "@", [["c", [["n", "s"]]]]], ["q", "@", [["c", [["n", "p"]]]]]]]):
                ast = ["q", "$", [["c", [["f", e]]]]]
                text = Renderer(None).query(ast, top=True)
                judge(stats, ast, doc, text, "regex")
                n += 1
            stats.nt("regex", fn, pat)
    stats.subspaces.append({"name": "match/search x 13 patterns x 15 subjects (incl. leading/trailing line feeds, non-strings) x {test, negated, pattern from the document}",
                            "size": n, "exhaustive": True})
    return stats


def t_numbers():
    """every RFC 9535 spelling of a number literal denotes its value (exponent in either case and sign, fraction, -0)"""
    stats = Stats()
    spellings = ["0", "-0", "1", "-1", "10", "1e1", "1E1", "1e+1", "1E+1", "100e-1", "100E-1", "5e-1", "5E-1", "25E-1", "25e-1", "-5E-1", "0.5", "0.50",
                 "5.0e-1", "5.0E-1", "0.05e1", "0.05E+1", "1.5", "15e-1", "15E-1", "1.5e0", "1.5E0", "150e-2", "0e0", "0E-5", "-0.0", "0.0", "1e0", "1E0",
                 "12e1", "120", "1.2e2", "1.2E+2", "1e-2", "1E-2", "0.01", "2.5e-3", "25E-4", "1e21", "1E21", "9007199254740991", "1e2", "100"]
    n = 0
    pool = sorted({float(x) for x in spellings} | {0.25, 2.0, 3.0})
    doc = [int(v) if v == int(v) and abs(v) < 2**53 else v for v in pool] + [0.5, 1.5, 0.01, "5E-1", None, True]
    for sp in spellings:
        val = float(sp)
        lit = int(val) if (val == int(val) and abs(val) < 2**53) else val
        for op in ("==", "!=", "<", "<=", ">", ">="):
            for flip in (False, True):
                e = ["cmp", op, ["lit", lit], ["q", "@", []]] if flip else ["cmp", op, ["q", "@", []], ["lit", lit]]
                ast = ["q", "$", [["c", [["f", e]]]]]
                text = ("$[?%s %s @]" % (sp, op)) if flip else ("$[?@ %s %s]" % (op, sp))
                judge(stats, ast, doc, text, "numbers")
                n += 1
        stats.nt("number", sp)
    stats.subspaces.append({"name": "%d spellings of number literals x 6 operators x both operand orders" % len(spellings), "size": n, "exhaustive": True})
    return stats


def t_nesting():
    """`$` is the query argument and `@` the candidate at every nesting depth."""
    stats = Stats()
    n = 0
    doc = {"k": 2, "x": [{"a": [1, 2, 3], "k": 1}, {"a": [2, 2], "k": 3}, {"a": [], "k": 2}], "y": {"p": {"a": [2]}, "q": {"a": [5]}}}
    inner_variants = [
        ["cmp", "==", ["q", "@", []], ["q", "$", [["c", [["n", "k"]]]]]],
        ["cmp", "<", ["q", "@", []], ["q", "$", [["c", [["n", "k"]]]]]],
        ["test", ["q", "$", [["c", [["n", "k"]]]]]],
        ["test", ["q", "$", [["c", [["n", "zz"]]]]]],
        ["cmp", "==", ["q", "@", []], ["call", "length", [["q", "$", [["c", [["n", "x"]]]]]]]],
    ]
    for inner in inner_variants:
        for depth in (1, 2, 3):
            e = ["test", ["q", "@", [["c", [["n", "a"]]], ["c", [["f", inner]]]]]]
            for _ in range(depth - 1):
                e = ["test", ["q", "@", [["c", [["f", e]]]]]]
            for top in (["c", [["n", "x"]]], ["c", [["n", "y"]]]):
                segs = [top, ["c", [["f", e]]]] if depth == 1 else [["c", [["f", e]]]]
                ast = ["q", "$", segs]
                for r in (None, random.Random(n)):
                    text = Renderer(r).query(ast, top=True)
                    judge(stats, ast, doc, text, "nesting")
                    n += 1
                stats.nt("nesting", canon(inner), depth, canon(top))
    stats.subspaces.append({"name": "$ / @ binding inside nested filters, depth 1-3", "size": n, "exhaustive": True})
    stats.sample({"query": text, "document": short(doc)})
    return stats


def t_long():
    """long operand chains and deep nesting (up to 100 / 99), judged against the reference on small and large candidates"""
    from ..gen import longq
    stats = Stats()
    docs = longq.long_docs()
    cands = [docs[0], docs[3]["b"], {"x": {"a": 1, "b": 2}, "y": {"b": 1}, "z": longq.deep_a(45)}]
    n = 0
    rng = random.Random(23)
    for name, e in longq.long_filters():
        ast = ["q", "$", [["c", [["f", e]]]]]
        for j, doc in enumerate(cands):
            text = Renderer(rng if j else None).query(ast, top=True)
            judge(stats, ast, doc, text, "long")
            n += 1
        stats.nt("long", name)
    stats.subspaces.append({"name": "filters with 8..100 operands / depth up to 99 / 40 nested filters x 3 candidate sets (8, 150 and 3 candidates)", "size": n, "exhaustive": True})
    return stats


def tasks(tier, seed):
    ts = []
    rows = list(range(len(UNIVERSE)))
    for k in range(11):
        ts.append({"name": "table-%d" % k, "fn": "t_table", "kw": {"rows": rows[k::11]}})
    ts.append({"name": "existence", "fn": "t_existence"})
    ts.append({"name": "nesting", "fn": "t_nesting"})
    ts.append({"name": "regex", "fn": "t_regex"})
    ts.append({"name": "numbers", "fn": "t_numbers"})
    ts.append({"name": "long", "fn": "t_long"})
    n = 1500 if tier == "quick" else 25000
    depth = 3 if tier == "quick" else 4
    for k in range(16):
        ts.append({"name": "random-%d" % k, "fn": "t_random",
                   "kw": {"seed": mix(seed, ID, k), "n": n, "nspell": 3, "depth": depth}})
    for k in range(4):
        ts.append({"name": "textfuzz-%d" % k, "fn": "t_textfuzz", "kw": {"seed": mix(seed, ID, "textfuzz", k), "n": 900 if tier == "quick" else 15000}})
    return ts


def t_textfuzz(seed, n):
    """mutated query text classified by the independent RFC 9535 parser + typing checker (vf.textfuzz)"""
    from .. import textfuzz
    return textfuzz.task(seed, n, 'filter')


def replay(case):
    stats = Stats()
    if case.get("origin") == "textfuzz":
        from .. import textfuzz
        textfuzz.replay_case(stats, case)
        return stats
    judge(stats, case["ast"], case["doc"], case["text"], case.get("origin", "replay"))
    return stats


from .c01 import shrink  # noqa: E402,F401  (same case shape)
