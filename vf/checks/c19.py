"""C19 - projection returns exactly the selected values, nothing more, in place."""
from __future__ import annotations

import copy
import random

from hypothesis import strategies as st

from ..gen import docs as D
from ..gen import queries as Q
from ..gen.render import Renderer
from ..run import Stats, hyp_run, mix, rng_for
from ..strict import canon, container_ids, jeq, short, walk

import jsonpath
from jsonpath import Projection

ID = "C19"
LEVEL = "exploration"
CLAIM = True
TECHNIQUE = ("property-based testing: Query.select() under the three projection styles vs an independent rebuild of the "
             "projection from the selected (location, value) pairs; document snapshot + container-identity check after every call")
LEVEL_TEXT = ("Exploration by generated-input search: for generated documents (sparse-selection arrays, falsy leaves, integer-like "
              "member names, arrays of arrays), match queries and 1-4 relative queries, the result of select() is compared with a "
              "projection rebuilt independently from the nodes the relative queries select (FLAT: values in selection order; "
              "RELATIVE: tree keyed by relative location with each array level compacted to the rank of its selected indices; "
              "ROOT: the same under the match's own location); one output entry per container match with >= 1 selection; the "
              "document must be unchanged (strict JSON equality and container identity) after every call.")
LEVEL_TEXT += ' Flat projections are judged also when selections overlap (one selected node inside another) or are unordered.'
BUDGET_S = {"quick": 60, "thorough": 400}
RULE = ("Relative queries from names, non-negative indices, positive-step slices, wildcards and nesting, biased to be ascending "
        "per array. The statement's precondition (per-array selections first appear in ascending order) is checked on the actual "
        "selection; cases that miss it and cases where one selected node is an ancestor of another are out of scope for the value "
        "oracle (counted) but still subject to the document-unchanged check. Non-trivial = >= 2 selected nodes including a gap in "
        "an array, a falsy leaf or an integer-like name; distinct by (document, match query, expressions, style).")
ASSUMPTIONS = [
    "which nodes a relative query selects is taken from the library's own finditer (selection is C01's subject)",
    "value oracle of the tree-shaped projections applied only when no selected node is an ancestor of another (flat: always)",
]

STYLES = [Projection.RELATIVE, Projection.ROOT, Projection.FLAT]
FALSY = [0, False, "", [], {}, None, 0.0]


def build_tree(selected, base):
    """selected: [(parts, value)] relative to `base`.  Returns the compacted projection."""
    root = {"kind": None, "children": {}}
    for parts, value in selected:
        node = root
        cur = base
        for p in parts[:-1]:
            node["kind"] = "array" if isinstance(cur, list) else "object"
            node = node["children"].setdefault(p, {"kind": None, "children": {}})
            cur = cur[p]
        node["kind"] = "array" if isinstance(cur, list) else "object"
        node["children"][parts[-1]] = {"leaf": value}

    def conv(n):
        if "leaf" in n:
            return n["leaf"]
        if n["kind"] == "array":
            return [conv(n["children"][k]) for k in sorted(n["children"])]
        return {k: conv(v) for k, v in n["children"].items()}

    return conv(root)


def ascending_ok(selected):
    """for every array location the indices first appear in ascending order across the whole selection"""
    seen = {}
    for parts, _ in selected:
        for i, p in enumerate(parts):
            if isinstance(p, int):
                key = tuple(parts[:i])
                lst = seen.setdefault(key, [])
                if p not in lst:
                    if lst and p < lst[-1]:
                        return False
                    lst.append(p)
    return True


def ancestor_conflict(selected):
    locs = [tuple(p) for p, _ in selected]
    s = set(locs)
    for l in s:
        for k in range(len(l)):
            if l[:k] in s:
                return True
    return len(s) != len(locs) and False


def judge(stats: Stats, doc, mtext, exprs, style, compiled, origin):
    case = {"doc": doc, "match_query": mtext, "exprs": exprs, "style": style.name, "compiled": compiled}
    snap = copy.deepcopy(doc)
    ids = container_ids(doc)
    env = jsonpath.DEFAULT_ENV
    try:
        matches = list(env.finditer(mtext, doc))
        paths = [env.compile(e) for e in exprs]
    except Exception:  # noqa: BLE001 - acceptance is not this property's subject
        stats.excluded["compile-error"] += 1
        return None
    # expected, from the library's own selection
    expected = []
    judged = True
    info = {"selected": 0, "gap": False, "falsy": False, "intlike": False}
    for m in matches:
        if not isinstance(m.obj, (dict, list)):
            continue
        sel = []
        for p in paths:
            for rm in p.finditer(m.obj):
                sel.append((tuple(rm.parts), rm.obj))
        if not sel:
            continue
        if any(len(s[0]) == 0 for s in sel):
            judged = False  # a relative query that selects the match itself is not "below the match"
        info["selected"] += len(sel)
        for parts, v in sel:
            if any(v is f or (type(v) is type(f) and v == f) for f in FALSY):
                info["falsy"] = True
            if any(isinstance(x, str) and x.strip().lstrip("+-").isdigit() for x in parts):
                info["intlike"] = True
        # the two preconditions concern the tree-shaped projections only: a flat projection is the plain list of the
        # selected values in selection order, whatever their order and whether or not one lies inside another
        if style != Projection.FLAT and not ascending_ok(sel):
            judged = False
            stats.excluded["selection-not-ascending (precondition)"] += 1
        if style != Projection.FLAT and ancestor_conflict(sel):
            judged = False
            stats.excluded["selected-node-is-ancestor-of-another"] += 1
        if style == Projection.FLAT and (ancestor_conflict(sel) or not ascending_ok(sel)):
            stats.cls("flat:overlapping-or-unordered-selection")
        if len(set(s[0] for s in sel)) != len(sel):
            # the same node selected twice: FLAT lists it twice, trees hold it once
            pass
        if judged:
            arr_idx = {}
            for parts, _ in sel:
                for i, x in enumerate(parts):
                    if isinstance(x, int):
                        arr_idx.setdefault(tuple(parts[:i]), set()).add(x)
            for k, idxs in arr_idx.items():
                try:
                    n = len(walk(m.obj, k))
                except LookupError:
                    n = 0
                if len(idxs) < n and (max(idxs) - min(idxs) + 1 > len(idxs) or min(idxs) > 0):
                    info["gap"] = True
            if style == Projection.FLAT:
                expected.append([v for _, v in sel])
            elif style == Projection.RELATIVE:
                expected.append(build_tree(sel, m.obj))
            else:
                mp = tuple(m.parts)
                expected.append(build_tree([(mp + parts, v) for parts, v in sel], doc))
    stats.ev()
    try:
        args = paths if compiled else exprs
        got = list(env.query(mtext, doc).select(*args, projection=style))
        err = None
    except Exception as e:  # noqa: BLE001
        got, err = None, e
    # always: the document is not modified
    if not jeq(doc, snap) or container_ids(doc) != ids:
        stats.fail("document-modified:%s" % style.name, dict(case, doc=snap), "select(%s) on %s with match query %r changed the document to %s" % (
            exprs, short(snap, 160), mtext, short(doc, 160)))
        return info
    if err is not None:
        stats.fail("raised:%s:%s" % (type(err).__name__, style.name), case, "select(%s, %s) raised %s: %s" % (exprs, style.name, type(err).__name__, err))
        return info
    if not judged:
        return info
    if len(got) != len(expected):
        stats.fail("wrong-number-of-projections:%s" % style.name, case, "select(%s, %s) over %r on %s gave %d projections %s, expected %d %s" % (
            exprs, style.name, mtext, short(doc, 140), len(got), short(got, 160), len(expected), short(expected, 160)))
        return info
    for g, e in zip(got, expected):
        if not jeq(g, e):
            stats.fail("wrong-projection:%s" % style.name, case, "select(%s, %s) over %r on %s gave %s, expected %s" % (
                exprs, style.name, mtext, short(doc, 140), short(g, 200), short(e, 200)))
            break
    return info


# ------------------------------------------------------------------ generation


def gen_rel(rng, base, prefer_nested=False):
    """a relative query below `base` (a container): names, non-negative indices, positive-step slices, wildcards"""
    segs = []
    cur = [base]
    n = rng.choice([1, 1, 2, 2, 3])
    for _ in range(n):
        conts = [c for c in cur if isinstance(c, (dict, list)) and len(c)]
        if not conts:
            break
        t = rng.choice(conts)
        r = rng.random()
        if isinstance(t, dict):
            sel = ["w"] if r < 0.25 else ["n", rng.choice(list(t))]
        else:
            L = len(t)
            if r < 0.2:
                sel = ["w"]
            elif r < 0.45:
                a = rng.randrange(L)
                sel = ["s", a if rng.random() < 0.7 else None, rng.choice([None, L, min(L, a + 2)]), rng.choice([None, 1, 2])]
            else:
                sel = ["i", rng.randrange(L)]
        sels = [sel]
        if rng.random() < 0.15:
            t2 = rng.choice(conts)
            if isinstance(t2, list) and len(t2) > 1 and sel[0] == "i":
                j = rng.randrange(len(t2))
                sels = [["i", min(sel[1], j)], ["i", max(sel[1], j)]] if j != sel[1] else sels
            elif isinstance(t2, dict):
                sels.append(["n", rng.choice(list(t2))])
        segs.append(["c", sels])
        from ..ref import rfc9535 as ref
        nl = ref.apply_segment(segs[-1], [((), c) for c in cur], ref.Ctx(base))
        cur = [v for _, v in nl][:30]
    if not segs:
        segs = [["c", [["w"]]]]
    return Renderer(None).query(["q", "$", segs], top=True)


# strings that spell JSON arrays / objects (or start like one) are strings: as matches they are not containers
JSONISH = ['{"a": 1}', "[10, 20]", '{"a": [1, 2], "x": 0}', "[[1], [2]]", "{", "[1", "{}", "[]", '"a"', "a[0]", "x{y}"]
_LEAF = st.one_of(st.sampled_from(FALSY), st.sampled_from([1, 2, "a", "b", True, 1.5]), st.sampled_from([1, "a"] + JSONISH))
_NAMES = st.one_of(st.sampled_from(["a", "b", "c", "x"]), st.sampled_from(["0", "1", "2", "-1", "10", "01"]))


@st.composite
def cases(draw):
    doc = draw(D.containers(name_st=_NAMES, scalars=_LEAF, max_leaves=14, max_children=5, array_bias=True))
    return doc, draw(st.integers(0, 2**32 - 1))


def t_random(seed, n):
    stats = Stats()

    def body(x):
        doc, s = x
        rng = rng_for(s)
        stats.case()
        r = rng.random()
        if r < 0.3:
            mtext = "$"
        elif r < 0.5:
            mtext = "$..*" if rng.random() < 0.3 else "$.*"
        else:
            segs, _ = Q.gen_segments(rng, doc, nmax=2, kinds=("n", "i", "w", "s"), desc_p=0.2)
            mtext = Renderer(None).query(["q", "$", segs], top=True)
        try:
            ms = [m.obj for m in jsonpath.finditer(mtext, doc) if isinstance(m.obj, (dict, list)) and len(m.obj)]
        except Exception:  # noqa: BLE001
            ms = []
        base = rng.choice(ms) if ms else doc
        k = rng.choice([1, 1, 2, 2, 3, 4])
        exprs = [gen_rel(rng, base) for _ in range(k)]
        if rng.random() < 0.7:
            exprs.sort()
        style = rng.choice(STYLES)
        info = judge(stats, doc, mtext, exprs, style, rng.random() < 0.3, "random")
        stats.cls("style:" + style.name)
        if info:
            for key in ("gap", "falsy", "intlike"):
                if info[key]:
                    stats.cls(key)
            if info["selected"] >= 2 and (info["gap"] or info["falsy"] or info["intlike"]):
                stats.nt(canon(doc), mtext, canon(exprs), style.name)
                if len(stats.samples) < 5:
                    stats.sample({"document": short(doc, 160), "match_query": mtext, "select": exprs, "projection": style.name})

    hyp_run(cases(), body, n, seed, stats)
    return stats


def t_fixed():
    stats = Stats()
    n = 0
    doc = {"a": [[0, 1], [False, {"x": "", "0": None}], [], "s"], "0": {"1": [0, 0, 0], "b": 0}, "b": {"a": [{"x": 1}, {"x": 0}, {"x": None, "y": []}]}}
    matchq = ["$", "$.a", "$.b", "$['0']", "$.a[*]", "$.b.a[*]", "$..*", "$.a[1]", "$.b.a"]
    exprsets = [["a"], ["a[0]"], ["a[1]"], ["a[1][0]"], ["a[0]", "a[2]"], ["a[1][1].x", "a[1][1]['0']"], ["*"], ["*[0]"], ["[1]"], ["[0]", "[2]"], ["[1:]"],
                ["[::2]"], ["x"], ["x", "y"], ["a[*].x"], ["a[0].x", "a[2].x"], ["['1'][1]", "b"], ["['0']['1'][2]"], ["a", "a[1][0]"], ["a[1][0]", "a"],
                ["a[2]", "a[0]"], ["..x"], ["a[1:3]"], ["a[3]"], ["a[2]"], ["[0][1]", "[1][0]"], ["a[0][0]", "a[0][1]", "a[1][0]"]]
    for mq in matchq:
        for ex in exprsets:
            for style in STYLES:
                for compiled in (False, True):
                    judge(stats, copy.deepcopy(doc), mq, ex, style, compiled, "fixed")
                    n += 1
            stats.nt("fixed", mq, canon(ex))
    stats.subspaces.append({"name": "9 match queries x %d expression sets x 3 styles x {text, compiled} on a document with falsy leaves, sparse selections, integer-like names" % len(exprsets),
                            "size": n, "exhaustive": True})
    return stats


def t_strings():
    """matches that are strings spelling JSON (not containers): no projection, no error, in every style"""
    stats = Stats()
    n = 0
    doc = {"s": JSONISH, "o": dict(("k%d" % i, v) for i, v in enumerate(JSONISH)), "mixed": [JSONISH[0], {"a": 1}, JSONISH[1], [10, 20]], "a": JSONISH[0]}
    for mq in ("$.s[*]", "$.o.*", "$.mixed[*]", "$..*", "$.a", "$.s[0]", "$.mixed[0,1]", "$..[?@ != 1]"):
        for ex in (["a"], ["[0]"], ["*"], ["a", "[0]"], ["..*"], ["x"], ["a[0]"], ["[1:]"]):
            for style in STYLES:
                for compiled in (False, True):
                    judge(stats, copy.deepcopy(doc), mq, ex, style, compiled, "strings")
                    n += 1
            stats.nt("strings", mq, canon(ex))
    stats.subspaces.append({"name": "8 match queries over string matches that spell JSON x 8 expression sets x 3 styles x {text, compiled}", "size": n, "exhaustive": True})
    return stats


def t_long():
    """projections out of arrays of 200 elements and objects of 100 members: sparse two- and three-digit indices, long selections"""
    stats = Stats()
    n = 0
    doc = {"arr": [{"x": i, "y": [i, i + 1, i + 2]} for i in range(200)], "obj": {"k%d" % i: [i, {"z": i}] for i in range(100)}, "nums": list(range(150))}
    matchq = ["$", "$.arr", "$.obj", "$.nums", "$.arr[150]", "$.arr[?@.x > 195]"]
    exprsets = [["arr[0]", "arr[64]", "arr[65]", "arr[199]"], ["arr[9].x", "arr[10].x", "arr[100].y[2]"], ["[63:67]"], ["[::37]"], ["[199]"], ["[10]", "[100]"],
                ["nums[100]", "nums[101]", "nums[149]"], ["nums[9]", "nums[10]", "nums[11]"], ["nums[::-1]"], ["obj.k99[1].z", "obj.k9[0]"], ["k64", "k65[1]"], ["*[0]"],
                ["arr[*].x"], ["nums[*]"], ["y[2]", "x"], ["arr[100:103].y[1:]"], ["[?@.x > 197].y[0]"], ["[149]", "[0]"]]
    for mq in matchq:
        for ex in exprsets:
            for style in STYLES:
                judge(stats, copy.deepcopy(doc), mq, ex, style, False, "long")
                n += 1
            stats.nt("long", mq, canon(ex))
    stats.subspaces.append({"name": "6 match queries x 18 expression sets x 3 styles on a document with a 200-element array, a 100-member object and a 150-number array", "size": n, "exhaustive": True})
    return stats


def tasks(tier, seed):
    ts = [{"name": "fixed", "fn": "t_fixed"}, {"name": "long", "fn": "t_long"}, {"name": "strings", "fn": "t_strings"}]
    n = 1500 if tier == "quick" else 25000
    for k in range(15):
        ts.append({"name": "random-%d" % k, "fn": "t_random", "kw": {"seed": mix(seed, ID, k), "n": n}})
    return ts


def replay(case):
    stats = Stats()
    judge(stats, copy.deepcopy(case["doc"]), case["match_query"], case["exprs"], Projection[case["style"]], case.get("compiled", False), "replay")
    return stats
