"""C03 - every match location (path, parts, pointer, parent) identifies exactly that node."""
from __future__ import annotations

import random

from hypothesis import strategies as st

from .. import lib
from ..gen import docs as D
from ..gen import queries as Q
from ..gen.filters import FilterGen
from ..gen.render import Renderer, canonical
from ..ref import npath as NP
from ..ref import rfc6901 as P
from ..run import Stats, hyp_run, mix, rng_for
from ..strict import canon, short, walk

import jsonpath
from jsonpath import JSONPointer

ID = "C03"
LEVEL = "exploration"
CLAIM = True
TECHNIQUE = ("property-based testing: round-trip and invariant oracles over every match of generated ($-rooted, "
             "keys-free) queries on nasty-name documents: normalized-path grammar recogniser + canonical printer, path "
             "re-evaluation, parts walk, pointer and re-parsed pointer resolution, parent chain, pairwise injectivity")
LEVEL_TEXT = ("Exploration by generated-input search: for every match, the reported path must be accepted by an independent "
              "RFC 9535 2.7 recogniser and equal the canonical printing of the parts; evaluated as a query it must return "
              "exactly that one object (identity); parts, match.pointer(), and the pointer's text parsed again (escape "
              "decoding off always, on when the text has no backslash) must resolve to the same object; the parent chain "
              "must shorten the location one step at a time; equal paths iff same node. Every delicate member name x 3 "
              "query shapes is enumerated exhaustively.")
LEVEL_TEXT += ' Also: indices and slice bounds spelled with non-ASCII decimal digits on objects that have members named by every spelling (13 spellings x 11 positions x 3 documents, exhaustive).'
BUDGET_S = {"quick": 70, "thorough": 600}
RULE = ("Queries from the C01/C02 generators ($-rooted, no keys selector; emphasis on negative indices, negative-step "
        "slices, descendant segments, filters) over documents with names that need escaping in a path or pointer and with "
        "equal-but-distinct sibling containers. Non-trivial = a match of depth >= 1 whose parts hold a name needing "
        "escaping (path or pointer) or an index that came from a negative index / negative step; distinct by (document, "
        "parts, query).")
ASSUMPTIONS = [
    "normalized-path recogniser transcribed from the RFC 9535 2.7 ABNF (self-tested in preflight)",
    "identity (`is`) is the comparison for containers; strict JSON equality and same Python type for scalars",
]


def needs_escape(name):
    return any(ch in "'\\\"~/" or ord(ch) < 0x20 or ord(ch) > 0x7e for ch in name) or name == "" or \
        name.strip().lstrip("+-").isdigit()


def check_matches(stats: Stats, text, doc, origin, ast=None):
    case = {"text": text, "doc": doc, "origin": origin}
    if ast is not None:
        case["ast"] = ast
    try:
        ms = list(jsonpath.finditer(text, doc))
    except Exception as e:  # noqa: BLE001 - C01/C06 judge acceptance; not this property
        stats.excluded["query-raised:" + type(e).__name__] += 1
        return []
    seen = {}
    # long match lists: the first 40, the last 25, and every 37th in between
    picked = ms if len(ms) <= 65 else ms[:40] + ms[40:-25:37] + ms[-25:]
    for m in picked:
        stats.ev()
        parts = tuple(m.parts)
        # 0. parts walk strictly to the matched object
        try:
            node = walk(doc, parts)
        except LookupError:
            stats.fail("parts:do-not-walk", case, "match of %r has parts %r which do not exist in %s" % (text, parts, short(doc, 200)))
            continue
        if not lib.same_node(m.obj, node):
            stats.fail("parts:wrong-node", case, "parts %r lead to %s, match.obj is %s" % (parts, short(node, 80), short(m.obj, 80)))
            continue
        # 1. path is a normalized path and the canonical printing of parts
        if not NP.is_normalized(m.path):
            stats.fail("path:not-normalized", case, "path %r of a match of %r is not an RFC 9535 2.7 normalized path" % (m.path, text))
        elif m.path != NP.print_path(parts):
            stats.fail("path:not-canonical-for-parts", case, "path %r but parts %r print as %r" % (m.path, parts, NP.print_path(parts)))
        # 2. path evaluated as a query returns exactly that object
        try:
            back = list(jsonpath.finditer(m.path, doc))
            if len(back) != 1 or not lib.same_node(back[0].obj, node) or tuple(back[0].parts) != parts:
                stats.fail("path:re-evaluation-wrong", case, "path %r re-evaluated gives %s, expected exactly the node at %r" % (
                    m.path, short([(b.parts, b.obj) for b in back], 200), parts))
            elif back[0].path != m.path:
                stats.fail("path:not-fixed-point", case, "path %r re-evaluated reports path %r" % (m.path, back[0].path))
        except Exception as e:  # noqa: BLE001
            stats.fail("path:re-evaluation-raised:%s" % type(e).__name__, case, "reported path %r does not evaluate: %s: %s" % (m.path, type(e).__name__, e))
        # 3. pointer
        try:
            ptr = m.pointer()
            s = str(ptr)
            want = P.encode([str(p) for p in parts])
            if s != want:
                stats.fail("pointer:text", case, "match.pointer() prints %r, RFC 6901 spelling of %r is %r" % (s, parts, want))
            if not lib.same_node(ptr.resolve(doc), node):
                stats.fail("pointer:resolve", case, "match.pointer() %r resolves to another node" % s)
            routes = [("ue=False", lambda: JSONPointer(s, unicode_escape=False).resolve(doc))]
            if "\\" not in s:
                routes.append(("default", lambda: JSONPointer(s).resolve(doc)))
            for name, fn in routes:
                if not lib.same_node(fn(), node):
                    stats.fail("pointer:reparsed:%s" % name, case, "pointer text %r parsed again (%s) resolves to another node" % (s, name))
        except Exception as e:  # noqa: BLE001
            stats.fail("pointer:raised:%s" % type(e).__name__, case, "pointer of match at %r: %s: %s" % (parts, type(e).__name__, e))
        # 4. parent chain
        cur, cparts, hops = m, parts, 0
        ok = True
        while cur is not None and hops < 200:
            if tuple(cur.parts) != cparts or cur.path != NP.print_path(cparts):
                stats.fail("parent:location", case, "ancestor %d of match at %r has parts %r path %r" % (hops, parts, cur.parts, cur.path))
                ok = False
                break
            try:
                if not lib.same_node(cur.obj, walk(doc, cparts)):
                    stats.fail("parent:object", case, "ancestor %d of match at %r is not the node at %r" % (hops, parts, cparts))
                    ok = False
                    break
            except LookupError:
                stats.fail("parent:location-missing", case, "ancestor parts %r do not exist" % (cparts,))
                ok = False
                break
            if not cparts:
                if cur.parent is not None:
                    stats.fail("parent:root-has-parent", case, "root match has a parent")
                break
            cur, cparts, hops = cur.parent, cparts[:-1], hops + 1
        if ok and cur is None and cparts != ():
            stats.fail("parent:chain-too-short", case, "parent chain of match at %r ends %d steps early" % (parts, len(cparts)))
        # 5. injectivity
        key = m.path
        if key in seen and seen[key] != parts:
            stats.fail("pairs:equal-path-different-node", case, "path %r reported for parts %r and %r" % (key, seen[key], parts))
        seen[key] = parts
        nasty = any(isinstance(p, str) and needs_escape(p) for p in parts)
        stats.cls("depth:%d" % min(len(parts), 4))
        if nasty:
            stats.cls("nasty-name")
        if parts and nasty:
            stats.nt(canon(doc), repr(parts), text)
    # different parts must have different paths
    byparts = {}
    for m in ms[:3000]:
        byparts.setdefault(tuple(m.parts), set()).add(m.path)
    if any(len(v) > 1 for v in byparts.values()):
        stats.fail("pairs:same-node-different-paths", case, "one node reported under several paths: %s" % short(byparts, 200))
    # list views
    try:
        q_locs = list(jsonpath.query(text, doc).locations())
        q_ptrs = [str(p) for p in jsonpath.query(text, doc).pointers()]
        nl = jsonpath.NodeList(jsonpath.finditer(text, doc)).paths()
        want_paths = [m.path for m in ms]
        if q_locs != want_paths or nl != want_paths or q_ptrs != [str(m.pointer()) for m in ms]:
            stats.fail("views:disagree", case, "Query.locations()/pointers()/NodeList.paths() differ from the matches' own paths")
    except Exception as e:  # noqa: BLE001
        stats.fail("views:raised:%s" % type(e).__name__, case, "%s: %s" % (type(e).__name__, e))
    return ms


@st.composite
def cases(draw):
    names = st.one_of(st.sampled_from(D.NASTY), st.sampled_from(D.NASTY), st.sampled_from(D.HIT), D._text)
    doc = draw(D.containers(name_st=names, max_leaves=12))
    return doc, draw(st.integers(0, 2**32 - 1))


def t_random(seed, n):
    stats = Stats()

    def body(x):
        doc, s = x
        rng = rng_for(s)
        stats.case()
        use_filter = rng.random() < 0.3
        fg = FilterGen(rng, doc, depth=2)
        kinds = ("n", "i", "s", "w", "f") if use_filter else ("n", "i", "s", "w")
        segs, _ = Q.gen_segments(rng, doc, nmax=4, kinds=kinds, filt=fg, desc_p=0.3)
        ast = ["q", "$", segs]
        for seg in segs:
            for sel in seg[1]:
                if sel[0] == "i" and sel[1] < 0:
                    stats.cls("neg-index")
                if sel[0] == "s" and (sel[3] or 1) < 0:
                    stats.cls("neg-step")
        text = Renderer(rng).query(ast, top=True)
        ms = check_matches(stats, text, doc, "random", ast)
        if ms and len(stats.samples) < 5:
            stats.sample({"query": text, "document": short(doc, 160), "paths": [m.path for m in ms[:3]]})
        # always also the full walk of the document
        if rng.random() < 0.3:
            check_matches(stats, "$..*", doc, "all-nodes")

    hyp_run(cases(), body, n, seed, stats)
    return stats


def t_names():
    stats = Stats()
    n = 0
    for name in D.NASTY + ["a'", "'a", "\\'", "\\\\'", "a\\\\", "\"\\", "\\\"", "'\\", "\\u0027", "\x7f", "\x0b", "\x00"]:
        sib = [1]
        doc = {name: {"k": 1, name: [sib, [1]]}, "other": [1]}
        for q in ("$.*", "$..*", "$[*][*]", "$..[0]", "$..k"):
            ms = check_matches(stats, q, doc, "names")
            n += len(ms)
        stats.nt("name", name)
    stats.subspaces.append({"name": "every delicate member name (followed by further steps) x 5 query shapes", "size": n,
                            "exhaustive": True})
    return stats


def t_long():
    """locations in large documents: arrays of 1000 elements, objects of 300 members, depth 99"""
    from ..gen import longq
    stats = Stats()
    n = 0
    for doc in longq.long_docs():
        for q in ("$[*]", "$..*", "$.a[*]", "$.b[*].a", "$[::-1]", "$[-70:]", "$[63:67]", "$..[64,65,-1]", "$[?@ > 60]", "$.b[?@.b == 2]", "$..a", "$..[?@.a]"):
            ms = check_matches(stats, q, doc, "long")
            n += len(ms)
            if len(ms) > 64:
                stats.nt("long", q, n)
    stats.subspaces.append({"name": "12 queries x 6 large or deep documents; locations of the first 40, last 25 and every 37th match", "size": n, "exhaustive": True})
    return stats


def t_digits():
    """indices and slice bounds spelled with non-ASCII decimal digits, on objects that have members named by each spelling"""
    from .c10 import DIGIT_SHAPES, DIGIT_SPELLINGS, digit_doc
    stats = Stats()
    n = 0
    doc = digit_doc()
    for sp in DIGIT_SPELLINGS:
        for shp in DIGIT_SHAPES:
            for d in (doc, doc["o"], doc["l"]):
                ms = check_matches(stats, shp % sp, d, "digits")
                n += len(ms)
        stats.nt("digits", sp)
    stats.subspaces.append({"name": "13 digit spellings x 11 positions x 3 documents with members named by every spelling", "size": n, "exhaustive": True})
    return stats


def tasks(tier, seed):
    ts = [{"name": "names", "fn": "t_names"}, {"name": "digits", "fn": "t_digits"}, {"name": "long", "fn": "t_long"}]
    n = 1800 if tier == "quick" else 40000
    for k in range(16):
        ts.append({"name": "random-%d" % k, "fn": "t_random", "kw": {"seed": mix(seed, ID, k), "n": n}})
    return ts


def replay(case):
    stats = Stats()
    check_matches(stats, case["text"], case["doc"], case.get("origin", "replay"), case.get("ast"))
    return stats


def shrink(case, pred):
    from ..run import shrink_value

    def p_doc(d):
        c = dict(case)
        c["doc"] = d
        return pred(c)

    case = dict(case)
    case["doc"] = shrink_value(case["doc"], p_doc, budget_s=8)
    return case
