"""C20 - match -> pointer -> patch edits exactly the matched node."""
from __future__ import annotations

import copy
import random

from hypothesis import strategies as st

from .. import lib
from ..gen import docs as D
from ..gen import queries as Q
from ..gen.filters import FilterGen
from ..gen.render import Renderer
from ..run import Stats, hyp_run, mix, rng_for
from ..strict import canon, is_cyclic, jeq, short, walk

from ..ref import rfc6901 as P6901
from ..ref import rfc6902 as R6902

import jsonpath
from jsonpath import JSONPatch, JSONPatchError, JSONPatchTestFailure

ID = "C20"
LEVEL = "exploration"
CLAIM = True
TECHNIQUE = ("property-based testing of a composition: every match of generated queries is turned into a pointer and fed to "
             "test / replace / remove patches; oracle = direct get/set/delete by the match's parts on a deep copy, strict "
             "JSON equality of whole documents")
LEVEL_TEXT = ("Exploration by generated-input search: for each match of $-rooted keys-free queries over documents whose member "
              "names are digits-only, signed look-alikes, '~', '/', empty and non-ASCII, JSONPatch().test(m.pointer(), value) "
              "must pass and change nothing, test with another value must raise JSONPatchTestFailure, replace must equal "
              "set-by-parts and remove must equal delete-by-parts, compared as whole documents with strict JSON equality (so "
              "an edit that lands on a look-alike member, adds an int key or touches anything else fails).")
LEVEL_TEXT += ' The location a match reports must hold the matched node itself (identity for containers) before the three operations are judged.'
LEVEL_TEXT += ' Member names that are decimal integers beyond the index limit are in the pool (only the routes through pointer text are set aside for them, counted: C04 known finding).'
BUDGET_S = {"quick": 60, "thorough": 500}
RULE = ("C03's query stream over nasty-name documents; every match x {test, test-different, replace, remove}. Non-trivial = the "
        "match's parts contain a name that is integer-like, empty, non-ASCII or contains '~' or '/'; distinct by (document, "
        "parts, operation).")
ASSUMPTIONS = ["oracle = 10-line get/set/delete by parts on a deep copy; equality is strict JSON equality with str keys only"]

NEW = {"new": [True, 1]}
INTISH = ["0", "1", "2", "10", "-1", "+1", " 1", "01", "-0", "1_0", "１", "1.0", "1e0", "00", "1\u0663", "13", "1\uff11", "11",
          "9007199254740993", "-9007199254740993", "18446744073709551616"]  # beyond the index limit: still just member names


def set_by_parts(doc, parts, value):
    if not parts:
        return value
    parent = walk(doc, parts[:-1])
    parent[parts[-1]] = value
    return doc


def del_by_parts(doc, parts):
    parent = walk(doc, parts[:-1])
    del parent[parts[-1]]
    return doc


def nasty(parts):
    for p in parts:
        if isinstance(p, str) and (p == "" or not p.isascii() or "~" in p or "/" in p or
                                   p.strip().lstrip("+-").replace("_", "").replace(".", "").isdigit()):
            return True
    return False


def apply(stats, case, op, patch, doc):
    stats.ev()
    try:
        return "ok", patch.apply(doc)
    except Exception as e:  # noqa: BLE001
        return "err", e


def judge(stats: Stats, text, doc, origin):
    case = {"text": text, "doc": doc, "origin": origin}
    try:
        ms = list(jsonpath.finditer(text, doc))
    except Exception as e:  # noqa: BLE001 - acceptance is C01/C06's subject
        stats.excluded["query-raised:" + type(e).__name__] += 1
        return 0
    n = 0
    for m in (ms if len(ms) <= 40 else ms[:25] + ms[25:-10:53] + ms[-10:]):
        parts = tuple(m.parts)
        try:
            node = walk(doc, parts)
        except LookupError:
            stats.fail("location:does-not-exist", dict(case, parts=list(parts)), "the match of %r with value %s reports the location %r, which %s does not have" % (
                text, short(m.obj, 80), parts, short(doc, 160)))
            continue
        if not lib.same_node(m.obj, node):
            # "test with the matched value passes ... at exactly that location": the location must hold the matched value
            stats.fail("location:holds-another-node", dict(case, parts=list(parts)), "the match of %r with value %s reports the location %r, which holds %s in %s" % (
                text, short(m.obj, 80), parts, short(node, 80), short(doc, 160)))
            continue
        try:
            ptr = m.pointer()
            str(ptr)
        except Exception as e:  # noqa: BLE001
            stats.fail("pointer:raised:%s" % type(e).__name__, dict(case, parts=list(parts)), "match.pointer() for parts %r raised %s: %s" % (parts, type(e).__name__, e))
            continue
        n += 1
        isn = nasty(parts)
        c = dict(case)
        c["parts"] = list(parts)
        # test with the matched value
        d = copy.deepcopy(doc)
        k, r = apply(stats, c, "test", JSONPatch().test(ptr, copy.deepcopy(node)), d)
        if k == "err":
            stats.fail("test:raised:%s" % type(r).__name__, c, "test(%r, matched value) on %s raised %s: %s" % (str(ptr), short(doc, 160), type(r).__name__, r))
        elif not jeq(r, doc):
            stats.fail("test:changed-document", c, "test(%r) changed the document to %s" % (str(ptr), short(r, 160)))
        # test with a different value
        other = [node, "different"]
        k, r = apply(stats, c, "test-other", JSONPatch().test(ptr, other), copy.deepcopy(doc))
        if k == "ok":
            stats.fail("test-other:passed", c, "test(%r, a different value) passed on %s" % (str(ptr), short(doc, 160)))
        elif not isinstance(r, JSONPatchTestFailure):
            stats.fail("test-other:wrong-error:%s" % type(r).__name__, c, "test(%r, a different value) raised %s: %s" % (str(ptr), type(r).__name__, r))
        # replace
        want = set_by_parts(copy.deepcopy(doc), parts, copy.deepcopy(NEW))
        k, r = apply(stats, c, "replace", JSONPatch().replace(ptr, copy.deepcopy(NEW)), copy.deepcopy(doc))
        if k == "err":
            stats.fail("replace:raised:%s" % type(r).__name__, c, "replace(%r) on %s raised %s: %s" % (str(ptr), short(doc, 160), type(r).__name__, r))
        elif is_cyclic(r) or not jeq(r, want):
            stats.fail("replace:wrong-document", c, "replace(%r) on %s gave %s, expected %s" % (str(ptr), short(doc, 160), short(r, 200), short(want, 200)))
        # the same through the pointer's text (C03: the text parsed again denotes the same node)
        want = set_by_parts(copy.deepcopy(doc), parts, copy.deepcopy(NEW))
        # a member name that is a decimal integer beyond +-(2**53-1) cannot be written as pointer *text* (the C04 known finding,
        # listed there); the pointer object a match hands out must work all the same, so only the text route is set aside and counted
        import re as _re
        if any(isinstance(p_, str) and _re.fullmatch(r"-?(0|[1-9][0-9]*)", p_) and abs(int(p_)) > 2**53 - 1 for p_ in parts):
            stats.excluded["replace-by-text:name-beyond-index-limit(C04 known finding)"] += 1
            k, r = "skip", None
            beyond = True
        else:
            beyond = False
            k, r = apply(stats, c, "replace-by-text", JSONPatch(unicode_escape=False).replace(str(ptr), copy.deepcopy(NEW)), copy.deepcopy(doc))
        if k == "skip":
            pass
        elif k == "err":
            stats.fail("replace-by-text:raised:%s" % type(r).__name__, c, "replace(%r as text) on %s raised %s: %s" % (str(ptr), short(doc, 160), type(r).__name__, r))
        elif is_cyclic(r) or not jeq(r, want):
            stats.fail("replace-by-text:wrong-document", c, "replace(%r as text) on %s gave %s, expected %s" % (str(ptr), short(doc, 160), short(r, 200), short(want, 200)))
        if parts and not beyond:
            want = del_by_parts(copy.deepcopy(doc), parts)
            k, r = apply(stats, c, "remove-by-text", JSONPatch(unicode_escape=False).remove(str(ptr)), copy.deepcopy(doc))
            if k == "err":
                stats.fail("remove-by-text:raised:%s" % type(r).__name__, c, "remove(%r as text) on %s raised %s: %s" % (str(ptr), short(doc, 160), type(r).__name__, r))
            elif not jeq(r, want):
                stats.fail("remove-by-text:wrong-document", c, "remove(%r as text) on %s gave %s, expected %s" % (str(ptr), short(doc, 160), short(r, 200), short(want, 200)))
        # remove
        if parts:
            want = del_by_parts(copy.deepcopy(doc), parts)
            k, r = apply(stats, c, "remove", JSONPatch().remove(ptr), copy.deepcopy(doc))
            if k == "err":
                stats.fail("remove:raised:%s" % type(r).__name__, c, "remove(%r) on %s raised %s: %s" % (str(ptr), short(doc, 160), type(r).__name__, r))
            elif not jeq(r, want):
                stats.fail("remove:wrong-document", c, "remove(%r) on %s gave %s, expected %s" % (str(ptr), short(doc, 160), short(r, 200), short(want, 200)))
        # one pointer object as the target of several operations of one patch, with a structural edit in between: every operation
        # addresses the document as the earlier operations left it (RFC 6902 applies operations in sequence)
        ks = [k for k, x in enumerate(parts) if isinstance(x, int)]
        if ks and not beyond:
            k = ks[0]
            arr_text = P6901.encode([str(x) for x in parts[:k]])
            arr = walk(doc, parts[:k])
            for shift in ({"op": "add", "path": arr_text + "/0", "value": "shifted"},
                          {"op": "remove", "path": arr_text + "/0"} if parts[k] + 1 < len(arr) else None):
                if shift is None:
                    continue
                text_ops = [{"op": "test", "path": str(ptr), "value": copy.deepcopy(node)}, shift, {"op": "replace", "path": str(ptr), "value": copy.deepcopy(NEW)},
                            {"op": "test", "path": str(ptr), "value": copy.deepcopy(NEW)}]
                want = R6902.apply(copy.deepcopy(doc), text_ops)
                pobj = JSONPatch(unicode_escape=False).test(ptr, copy.deepcopy(node))
                pobj = pobj.add(shift["path"], shift["value"]) if shift["op"] == "add" else pobj.remove(shift["path"])
                pobj = pobj.replace(ptr, copy.deepcopy(NEW)).test(ptr, copy.deepcopy(NEW))
                kk, r = apply(stats, c, "sequence", pobj, copy.deepcopy(doc))
                if want[0] == "ok":
                    if kk == "err":
                        stats.fail("sequence:raised:%s" % type(r).__name__, c, "test / %s / replace / test through one pointer object %r on %s raised %s: %s" % (
                            shift["op"], str(ptr), short(doc, 140), type(r).__name__, r))
                    elif not jeq(r, want[1]):
                        stats.fail("sequence:wrong-document:%s" % shift["op"], c, "test / %s %s / replace / test through one pointer object %r on %s gave %s, RFC 6902 gives %s" % (
                            shift["op"], shift["path"], str(ptr), short(doc, 140), short(r, 180), short(want[1], 180)))
                else:
                    # after the shift the pointer may address something RFC 6902 cannot (e.g. "-1" now met an array: the library's
                    # negative-index extension): not this property's claim either way
                    stats.excluded["sequence after which the pointer is no longer RFC-resolvable"] += 1
                stats.cls("sequence:" + shift["op"])
        if isn:
            stats.cls("nasty")
            for op in ("test", "replace", "remove"):
                stats.nt(canon(doc), repr(parts), op)
        stats.cls("depth:%d" % min(len(parts), 4))
    return n


@st.composite
def cases(draw):
    names = st.one_of(st.sampled_from(INTISH), st.sampled_from(INTISH), st.sampled_from(D.NASTY), st.sampled_from(D.HIT), D._text)
    doc = draw(D.containers(name_st=names, max_leaves=10))
    return doc, draw(st.integers(0, 2**32 - 1))


def t_random(seed, n):
    stats = Stats()

    def body(x):
        doc, s = x
        rng = rng_for(s)
        stats.case()
        r = rng.random()
        if r < 0.3:
            text = "$..*"
        else:
            fg = FilterGen(rng, doc, depth=1)
            kinds = ("n", "i", "s", "w", "f") if r < 0.5 else ("n", "i", "s", "w")
            segs, _ = Q.gen_segments(rng, doc, nmax=3, kinds=kinds, filt=fg, desc_p=0.3)
            text = Renderer(rng).query(["q", "$", segs], top=True)
        k = judge(stats, text, doc, "random")
        if k and len(stats.samples) < 4:
            stats.sample({"query": text, "document": short(doc, 160), "matches": k})

    hyp_run(cases(), body, n, seed, stats)
    return stats


def t_names():
    stats = Stats()
    n = 0
    for name in INTISH + D.NASTY:
        for other in ("1", "0", "a"):
            if other == name:
                continue
            doc = {name: {"v": [1, {name: 2}]}, other: {"v": [1, {other: 2}]}, "arr": [[0], {name: 0, other: 1}]}
            n += judge(stats, "$..*", doc, "names")
            n += judge(stats, "$", doc, "names")
    stats.subspaces.append({"name": "every integer-like / delicate name next to a look-alike sibling, all nodes x 4 operations",
                            "size": n, "exhaustive": True})
    return stats


def t_long():
    """matches deep inside large documents (index 64.., member 64.., depth 99)"""
    from ..gen import longq
    stats = Stats()
    n = 0
    docs = longq.long_docs()
    for doc in (docs[1][:200], {k: v for k, v in list(docs[2].items())[:120]}, docs[3], longq.deep_a(99), docs[5]):
        for q in ("$[*]", "$..*", "$.b[*].a", "$[-3:]", "$[63:67]", "$..a"):
            n += judge(stats, q, doc, "long")
    stats.subspaces.append({"name": "6 queries x 5 large or deep documents, first 25 / last 10 / every 53rd match", "size": n, "exhaustive": True})
    return stats


def tasks(tier, seed):
    ts = [{"name": "names", "fn": "t_names"}, {"name": "long", "fn": "t_long"}]
    n = 1200 if tier == "quick" else 20000
    for k in range(16):
        ts.append({"name": "random-%d" % k, "fn": "t_random", "kw": {"seed": mix(seed, ID, k), "n": n}})
    return ts


def replay(case):
    stats = Stats()
    judge(stats, case["text"], case["doc"], case.get("origin", "replay"))
    return stats
