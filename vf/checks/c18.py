"""C18 - the command-line tool is a faithful front end to the library."""
from __future__ import annotations

import io
import itertools
import json
import os
import random
import shutil
import subprocess
import sys

from hypothesis import strategies as st

from ..gen import docs as D
from ..gen import queries as Q
from ..gen.filters import FilterGen
from ..gen.render import Renderer
from ..ref import rfc6901 as P
from ..run import ROOT, Stats, hyp_run, mix, rng_for
from ..strict import canon, jeq, nodes, short
from . import c05

import jsonpath
from jsonpath import JSONPatchError, JSONPathEnvironment, JSONPathError, JSONPointerError
from jsonpath import cli as jcli

ID = "C18"
LEVEL = "exploration"
CLAIM = True
TECHNIQUE = ("differential property-based testing: the path / pointer / patch sub-commands (in-process main() with patched "
             "argv/stdio, plus a sample of real `python -m jsonpath` subprocesses with piped stdin) vs the corresponding library "
             "call with the same flags; full option matrix enumerated per sub-command x generated valid and invalid inputs")
LEVEL_TEXT = ("Exploration over (configuration, input): for each sub-command every combination of expression source (inline / "
              "file), document source (-f file / stdin), output (stdout / -o file), --pretty, --no-unicode-escape and "
              "--no-type-checks or -u is run on generated queries, pointers, patches and documents (valid, malformed JSON, "
              "invalid UTF-8). If the library call returns r the tool must exit 0 and write one JSON text that parses to r "
              "(indented over several lines with --pretty, a single line without); if the library raises a documented-family "
              "error the tool must exit 1 with a non-empty one-line message on stderr and no traceback (non-zero exit only "
              "under --debug). A foreign library exception belongs to C06 and is excluded here."
              ' Queries that span several lines (inline and from a file) are in the valid pool; documents whose strings hold unpaired surrogates run through every output option.')
LEVEL_TEXT += ' Rejected inputs that themselves carry LF / CR / CRLF are in every invalid pool (the message must stay one line).'
BUDGET_S = {"quick": 75, "thorough": 500}
RULE = ("Option matrix (64 combinations for path and pointer, 16 for patch) x inputs from the query / pointer / patch generators "
        "incl. each error class. File-sourced expressions are restricted to strings unchanged by .strip(). Non-trivial = an "
        "invocation with >= 2 non-default options or an error-class input; distinct by (argv shape, expression, document).")
ASSUMPTIONS = [
    "the statement fixes the JSON value written, not separators or ASCII escaping: output is compared after json.loads, not bytewise",
    "in-process runs patch sys.argv / sys.stdin / sys.stdout / sys.stderr; a 5% sample runs the real module in a subprocess",
    "scratch files live under /verif/scratch (git-ignored), never /tmp",
]

def same_value(a, b):
    """strict JSON equality, with NaN equal to NaN (documents may hold the non-finite numbers json accepts)"""
    if isinstance(a, float) and isinstance(b, float) and a != a and b != b:
        return True
    if isinstance(a, list) and isinstance(b, list):
        return len(a) == len(b) and all(same_value(x, y) for x, y in zip(a, b))
    if isinstance(a, dict) and isinstance(b, dict):
        return a.keys() == b.keys() and all(same_value(a[k], b[k]) for k in a)
    return jeq(a, b)


def scratch_dir():
    return os.path.join(ROOT, "scratch", "cli-%d" % os.getpid())  # per worker process


def scratch():
    os.makedirs(scratch_dir(), exist_ok=True)
    return scratch_dir()


def write(name, data):
    p = os.path.join(scratch(), name)
    mode = "wb" if isinstance(data, bytes) else "w"
    with open(p, mode, **({} if isinstance(data, bytes) else {"encoding": "utf-8"})) as f:
        f.write(data)
    return p


class _Stdin(io.TextIOWrapper):
    pass


def run_inprocess(argv, stdin_bytes):
    old = (sys.argv, sys.stdin, sys.stdout, sys.stderr)
    out, err = io.StringIO(), io.StringIO()
    sys.argv = ["json"] + argv
    sys.stdin = io.TextIOWrapper(io.BytesIO(stdin_bytes), encoding="utf-8")
    sys.stdout, sys.stderr = out, err
    code = 0
    exc = None
    try:
        jcli.main()
    except SystemExit as e:
        code = e.code if e.code is not None else 0
    except BaseException as e:  # noqa: BLE001 - an escaping exception is what a traceback is
        code = "exception"
        exc = e
    finally:
        sys.argv, sys.stdin, sys.stdout, sys.stderr = old
    return code, out.getvalue(), err.getvalue(), exc


def run_subprocess(argv, stdin_bytes):
    env = dict(os.environ)
    r = subprocess.run([sys.executable, "-m", "jsonpath"] + argv, input=stdin_bytes, capture_output=True, env=env, timeout=60)
    return r.returncode, r.stdout.decode("utf-8", "replace"), r.stderr.decode("utf-8", "replace"), None


def lib_call(sub, expr, doc_bytes, opts):
    """the library call the sub-command stands for -> ("ok", value) | ("err", exc) | ("foreign", exc)"""
    ue = not opts["no_unicode_escape"]
    try:
        if sub == "path":
            env = JSONPathEnvironment(unicode_escape=ue, well_typed=not opts["no_type_checks"])
            return "ok", env.compile(expr).findall(io.BytesIO(doc_bytes))
        if sub == "pointer":
            return "ok", jsonpath.pointer.resolve(expr, io.BytesIO(doc_bytes), unicode_escape=ue, uri_decode=opts["uri_decode"])
        patch = json.loads(expr if not opts.get("patch_bytes") else opts["patch_bytes"].encode("latin-1"))
        if not isinstance(patch, list):
            return "err", JSONPatchError("not an array")
        return "ok", jsonpath.patch.apply(patch, io.BytesIO(doc_bytes), unicode_escape=ue, uri_decode=opts["uri_decode"])
    except (JSONPathError, JSONPointerError, JSONPatchError, json.JSONDecodeError, UnicodeDecodeError) as e:
        return "err", e
    except Exception as e:  # noqa: BLE001
        return "foreign", e


def build_argv(sub, expr, doc_bytes, opts, tag):
    argv = []
    if opts["debug"]:
        argv.append("--debug")
    if opts["pretty"]:
        argv.append("--pretty")
    if opts["no_unicode_escape"]:
        argv.append("--no-unicode-escape")
    argv.append(sub)
    stdin = b""
    if sub == "path":
        if opts["expr_file"]:
            argv += ["-r", write("q-%s.txt" % tag, expr)]
        else:
            argv += ["-q", expr]
        if opts["no_type_checks"]:
            argv.append("--no-type-checks")
    elif sub == "pointer":
        if opts["expr_file"]:
            argv += ["-r", write("p-%s.txt" % tag, expr)]
        else:
            argv += ["-p", expr]
        if opts["uri_decode"]:
            argv.append("-u")
    else:
        argv.append(write("patch-%s.json" % tag, expr if not opts.get("patch_bytes") else opts["patch_bytes"].encode("latin-1")))
        if opts["uri_decode"]:
            argv.append("-u")
    if opts["doc_file"]:
        argv += ["-f", write("doc-%s.json" % tag, doc_bytes)]
    else:
        stdin = doc_bytes
    outp = None
    if opts["out_file"]:
        outp = os.path.join(scratch(), "out-%s.json" % tag)
        if os.path.exists(outp):
            os.remove(outp)
        argv += ["-o", outp]
    return argv, stdin, outp


def judge(stats: Stats, sub, expr, doc_bytes, opts, tag, real=False):
    case = {"sub": sub, "expr": expr, "doc": doc_bytes.decode("latin-1"), "opts": opts}
    if opts.get("expr_file") and sub != "patch" and (expr != expr.strip() or "\r" in expr):
        # an expression file is read in text mode and stripped: blank space at its ends is not part of the expression and a
        # lone CR inside it is read as LF, so the library call it corresponds to is not the one on `expr`
        stats.excluded["expression file whose text the tool does not read verbatim (outer blanks / CR)"] += 1
        return "skipped"
    want = lib_call(sub, expr, doc_bytes, opts)
    if want[0] == "foreign":
        stats.excluded["library raised a foreign exception (C06): %s" % type(want[1]).__name__] += 1
        return "foreign"
    argv, stdin, outp = build_argv(sub, expr, doc_bytes, opts, tag)
    stats.ev()
    try:
        code, out, err, exc = (run_subprocess if real else run_inprocess)(argv, stdin)
    except subprocess.TimeoutExpired:
        stats.fail("cli:%s:timeout" % sub, case, "subprocess timed out")
        return "timeout"
    shape = "%s:%s" % (sub, "+".join(k for k in ("expr_file", "doc_file", "out_file", "pretty", "no_unicode_escape", "no_type_checks", "uri_decode", "debug") if opts.get(k)) or "defaults")
    if want[0] == "ok":
        if code != 0:
            stats.fail("cli:%s:should-succeed:%s:%s" % (sub, type(exc).__name__ if exc is not None else "exit%s" % code, "expr_file" if opts["expr_file"] else "inline"), case,
                       "json %s exited %s (%s) but the library call returns %s; stderr: %s" % (" ".join(argv), code, repr(exc) if exc else "", short(want[1], 120), short(err, 200)))
            return "bad"
        text = out
        if outp:
            if out.strip():
                stats.fail("cli:%s:stdout-not-empty-with-o" % sub, case, "with -o the tool also wrote %r to stdout" % out[:80])
            try:
                text = open(outp, encoding="utf-8").read()
                if not text and not real:
                    # in-process only: the tool leaves its -o handle to be closed at interpreter exit; when something still
                    # refers to it here (a cycle), nothing has been flushed yet - collect, then read again
                    import gc
                    gc.collect()
                    text = open(outp, encoding="utf-8").read()
                    if not text:
                        code2, out2, err2, _ = run_subprocess(argv, stdin)
                        text = open(outp, encoding="utf-8").read() if code2 == 0 else text
            except OSError:
                stats.fail("cli:%s:no-output-file" % sub, case, "-o file was not written")
                return "bad"
        try:
            val = json.loads(text)
        except ValueError:
            stats.fail("cli:%s:output-not-json" % sub, case, "json %s wrote %r, which is not one JSON text" % (" ".join(argv), text[:200]))
            return "bad"
        if not same_value(val, want[1]):
            stats.fail("cli:%s:wrong-output:%s" % (sub, shape.split(":", 1)[1]), case, "json %s wrote %s, the library returns %s" % (" ".join(argv), short(val, 160), short(want[1], 160)))
            return "bad"
        body = text.strip("\n")
        if opts["pretty"]:
            if isinstance(want[1], (list, dict)) and want[1] and ("\n" not in body or "\n  " not in body):
                stats.fail("cli:%s:not-pretty" % sub, case, "--pretty output is not indented over several lines: %r" % body[:120])
        elif "\n" in body:
            stats.fail("cli:%s:not-single-line" % sub, case, "output without --pretty spans several lines: %r" % body[:120])
        return "ok"
    # the library rejects the input
    kind = type(want[1]).__name__
    if opts["debug"]:
        if code == 0:
            stats.fail("cli:%s:error-exit-0:debug:%s" % (sub, kind), case, "json %s exited 0 although the library raises %s" % (" ".join(argv), kind))
        return "err"
    if code != 1:
        stats.fail("cli:%s:error-exit:%s:%s" % (sub, kind, type(exc).__name__ if exc is not None else "exit%s" % code), case,
                   "json %s: the library raises %s: %s; the tool %s instead of exiting 1 with a message" % (
                       " ".join(argv), kind, short(str(want[1]), 100), ("let %r escape (traceback)" % exc) if exc is not None else "exited %s" % code))
        return "bad"
    msg = err[:-1] if err.endswith("\n") else err
    if not msg.strip():
        stats.fail("cli:%s:error-no-message:%s" % (sub, kind), case, "exit 1 without a message on stderr")
    elif "\n" in msg or "\r" in msg or "Traceback" in msg:  # a carriage return ends a line too (universal newlines, terminals)
        stats.fail("cli:%s:error-message-not-one-line:%s" % (sub, kind), case, "stderr is %r" % msg[:200])
    return "err"


# ------------------------------------------------------------------ inputs

DOC = {"a": [1, 2, {"b": "x"}], "b": {"c": [True, None]}, "e": "é", "1": [0], "s": "abc", "e f": 5, "caf\u00e9": [1], "p%q": 7, "p%25q": 8, "\\u0062": 9}
QUERIES_OK = ["$", "$.a", "$.a[*]", "$..b", "$.a[?@ > 1]", "$.a[?@.b == 'x']", "$.b.c[1:]", "$['e']", "$.zz", "$..*", "$[?length(@) > 1]", "$.a[-1]",
              "$['\\u00e9']", "a", "$.a | $.s", "$[?match(@, 'a.c')]", "$['\\u0061']", "$[?@ == '\\u0061bc']", "$['\\\\u0062']",
              # queries that span several lines (a line break is blank space wherever blank space is allowed); from a file too
              "$.a[?@.b == 'x'\nor @ == 1]", "$.a[?@ == 1\nand @ == 1]", "$.a[?@\nin [1, 2]]", "$\n.a", "$.a[\n1\n]", "$.a[?@.b\r\nor\r\n@ == 2]",
              "$.a[?\nnot\n@.b]", "$.a\n|\n$.s", "$.a[?@.b\n==\n'x']", "$.a[1,\n2]"]
QUERIES_BAD = ["$[", "$.a[?", "$[?@.a ==]", "$.a[?length(@.*) > 1]", "$[?count(1) > 1]", "$[?foo(@)]", "$[?nosuch(@.a) == 1]", "$[9007199254740992]", "$[01]", "$['a',]",
               "$[?@.a == 'x", "$..", "$[?@ =~ /(/]", "$[1e400]", "$[?!length(@)]", "$[?1e400 == @]",
               # rejected inputs that carry line breaks of their own: the message must still be one line
               "$[?@.a 'x\ny' == 1]", "$[?'a\nb']", "$.a\n&", "$[?@.a\n===\n1]", "$[?@ == 1 'l1\r\nl2']", "$.a |\n", "$['a\nb' 'c']", "$[?@.a 'x\ry' == 1]", "$.a\r&", "$['a\rb' 'c']",
               # inline expressions that begin with a character argument parsers like to give a meaning of their own
               "@.a", "@", "@[0]", "+1", "%a", "=a", "!a", "~~", "?@.a", "#"]
POINTERS_OK = ["", "/a", "/a/0", "/a/2/b", "/b/c/1", "/e", "/1/0", "/s", "/e%20f", "/caf%C3%A9/0", "/p%25q", "/e f", "/caf\u00e9", "/\\u0061/0", "/\\u0062", "/\\u0073"]
POINTERS_BAD = ["/zz", "/a/9", "/a/-", "/s/0", "a", "/a/x", "/b/c/2", "/a/01", "/\\u12", "/%zz", "/z\nz", "a\nb", "/a/1\n", "/a/\r\n0", "/a/\r0", "/s/x\ry", "/z\rz", "a\rb", "@/a", "@", "+/a", "=/a", "%/a", "?/a"]
PATCHES_OK = [[{"op": "add", "path": "/n", "value": 1}], [{"op": "remove", "path": "/a/0"}], [{"op": "replace", "path": "/e", "value": [1]}],
              [{"op": "move", "from": "/a/0", "path": "/b/m"}], [{"op": "copy", "from": "/b", "path": "/a/-"}], [{"op": "test", "path": "/a/0", "value": 1}],
              [], [{"op": "add", "path": "", "value": {"x": 1}}], [{"op": "add", "path": "/a/3", "value": "é"}],
              [{"op": "replace", "path": "/e%20f", "value": 1}], [{"op": "add", "path": "/caf%C3%A9/-", "value": 2}], [{"op": "remove", "path": "/p%25q"}],
              [{"op": "move", "from": "/e%20f", "path": "/moved"}], [{"op": "test", "path": "/caf%C3%A9/0", "value": 1}]]
PATCHES_BAD = [[{"op": "remove", "path": "/zz"}], [{"op": "test", "path": "/a/0", "value": 2}], [{"op": "nope", "path": "/a"}], [{"op": "add", "path": "/a"}],
               [{"path": "/a"}], {"op": "add"}, "text", 5, [{"op": "add", "path": "a", "value": 1}], [{"op": "add", "path": "/a/9", "value": 1}], [1],
               [{"op": "rem\nove", "path": "/a"}], [{"op": "remove", "path": "/z\nz"}], [{"op": "add", "path": "a\nb", "value": 1}],
               [{"op": "move", "from": "/z\r\nz", "path": "/a/0"}], [{"op": "remove", "path": "/a/\r0"}], [{"op": "re\rmove", "path": "/a"}],
               [{"op": "add", "path": "/s/x\ry", "value": 1}], [{"op": "test", "path": "/a/0", "value": "l1\nl2"}]]
DOCS_BAD = [b"{", b"[1,", b"", b"\xff\xfe{}", b'{"a": \xc3\x28}', b"nul"]


def all_opts(sub):
    keys = ["expr_file", "doc_file", "out_file", "pretty", "no_unicode_escape"] + (["no_type_checks"] if sub == "path" else ["uri_decode"])
    if sub == "patch":
        keys.remove("expr_file")
    for bits in itertools.product([False, True], repeat=len(keys)):
        o = {"expr_file": False, "doc_file": False, "out_file": False, "pretty": False, "no_unicode_escape": False, "no_type_checks": False,
             "uri_decode": False, "debug": False}
        o.update(dict(zip(keys, bits)))
        yield o


def nondefault(opts):
    return sum(1 for k, v in opts.items() if v)


def t_matrix(sub, shard, nshards):
    stats = Stats()
    docb = json.dumps(DOC).encode("utf-8")
    ok = {"path": QUERIES_OK, "pointer": POINTERS_OK, "patch": [json.dumps(p) for p in PATCHES_OK]}[sub]
    bad = {"path": QUERIES_BAD, "pointer": POINTERS_BAD, "patch": [json.dumps(p) for p in PATCHES_BAD] + ["{", ""]}[sub]
    n = 0
    rng = random.Random(shard)
    try:
        for oi, opts in enumerate(all_opts(sub)):
            if oi % nshards != shard:
                continue
            for expr in ok + bad:
                if opts["expr_file"] and expr != expr.strip():
                    continue
                judge(stats, sub, expr, docb, opts, "%s-%d" % (sub, shard))
                n += 1
                if nondefault(opts) >= 2 or expr in bad:
                    stats.nt(sub, canon(opts), expr)
            for db in DOCS_BAD:
                judge(stats, sub, ok[1], db, opts, "%s-%d" % (sub, shard))
                n += 1
                stats.nt(sub, canon(opts), "baddoc", db.decode("latin-1"))
            if rng.random() < 0.5:
                o2 = dict(opts, debug=True)
                judge(stats, sub, rng.choice(bad), docb, o2, "%s-%d" % (sub, shard))
                judge(stats, sub, rng.choice(ok), docb, o2, "%s-%d" % (sub, shard))
                n += 2
    finally:
        shutil.rmtree(scratch_dir(), ignore_errors=True)
    stats.subspaces.append({"name": "%s: every option combination (shard %d/%d) x %d valid + %d invalid expressions x valid / malformed / undecodable documents" % (
        sub, shard, nshards, len(ok), len(bad)), "size": n, "exhaustive": True})
    stats.sample({"argv": "json %s ..." % sub, "options": {k: v for k, v in opts.items() if v}, "expression": expr})
    return stats


def t_encodings():
    """documents and patch files in the encodings json.loads() detects from bytes (UTF-8 with BOM, UTF-16, UTF-32), and
    documents holding the non-finite numbers json accepts (1e400, NaN): the tool must serialise what the library returns"""
    stats = Stats()
    n = 0
    base = {"pretty": False, "no_unicode_escape": False, "no_type_checks": False, "uri_decode": False, "debug": False, "expr_file": False}
    text_doc = json.dumps({"a": [1, 2, {"b": "x"}], "e": "\u00e9", "s": "abc"})
    encs = ["utf-8", "utf-8-sig", "utf-16", "utf-16-le", "utf-16-be", "utf-32"]
    nonfinite = b'{"big": 1e400, "neg": -1e400, "nan": NaN, "inf": Infinity, "a": [1, 2E+999], "ok": 1}'
    try:
        for enc in encs:
            docb = text_doc.encode(enc)
            for out_file in (False, True):
                for pretty in (False, True):
                    o = dict(base, doc_file=True, out_file=out_file, pretty=pretty)
                    for q in ("$.a[*]", "$.e", "$..b"):
                        judge(stats, "path", q, docb, o, "enc")
                        n += 1
                    for ptr in ("/a/2/b", "/e", ""):
                        judge(stats, "pointer", ptr, docb, o, "enc")
                        n += 1
                    for penc in encs:
                        patch_text = json.dumps([{"op": "add", "path": "/n", "value": "\u00e9"}, {"op": "remove", "path": "/s"}])
                        o2 = dict(o, patch_bytes=patch_text.encode(penc).decode("latin-1"))
                        judge(stats, "patch", patch_text, docb, o2, "enc")
                        n += 1
            stats.nt("enc", enc)
        for out_file in (False, True):
            for pretty in (False, True):
                for doc_file in (False, True):
                    o = dict(base, doc_file=doc_file, out_file=out_file, pretty=pretty)
                    for q in ("$.big", "$.*", "$.a[1]", "$[?@ > 1]", "$.ok"):
                        judge(stats, "path", q, nonfinite, o, "nf")
                        n += 1
                    for ptr in ("/big", "/neg", "/nan", "/inf", "/a", "/a/1", "", "/ok"):
                        judge(stats, "pointer", ptr, nonfinite, o, "nf")
                        n += 1
                    for patch in ([{"op": "add", "path": "/x", "value": 1}], [{"op": "copy", "from": "/big", "path": "/y"}], [{"op": "remove", "path": "/nan"}]):
                        judge(stats, "patch", json.dumps(patch), nonfinite, o, "nf")
                        n += 1
        stats.nt("nonfinite", "doc")
        # strings that hold unpaired surrogates (legal in JSON text as \\uD800 escapes): whatever the library returns must be written
        lone = b'{"s": "x\\ud800y", "t": ["\\udc00", "ok"], "pair": "\\ud83d\\ude00", "o": {"k\\udfff": 1}, "ok": 1}'
        for out_file in (False, True):
            for pretty in (False, True):
                for doc_file in (False, True):
                    o = dict(base, doc_file=doc_file, out_file=out_file, pretty=pretty)
                    for q in ("$.s", "$.*", "$.t[0]", "$.pair", "$.o", "$..*", "$.ok", "$[?@ == 'x\\ud800y']"):
                        judge(stats, "path", q, lone, o, "ls")
                        n += 1
                    for ptr in ("/s", "/t/0", "/t", "", "/pair", "/o", "/ok"):
                        judge(stats, "pointer", ptr, lone, o, "ls")
                        n += 1
                    for patch in ([{"op": "add", "path": "/x", "value": 1}], [{"op": "copy", "from": "/s", "path": "/y"}], [{"op": "remove", "path": "/ok"}],
                                  [{"op": "add", "path": "/z", "value": "\ud800"}]):
                        judge(stats, "patch", json.dumps(patch), lone, o, "ls")
                        n += 1
        stats.nt("lone-surrogate", "doc")
    finally:
        shutil.rmtree(scratch_dir(), ignore_errors=True)
    stats.subspaces.append({"name": "6 byte encodings of document and patch file x sub-commands x output options; documents with non-finite numbers x 16 expressions x output/document options",
                            "size": n, "exhaustive": True})
    return stats


@st.composite
def cases(draw):
    doc = draw(D.containers(max_leaves=8, name_st=st.one_of(st.sampled_from(D.HIT), st.sampled_from(["0", "1", "é", "a/b", "m~n", " "]))))
    return doc, draw(st.integers(0, 2**32 - 1))


def t_random(seed, n, real_every):
    stats = Stats()
    count = [0]

    def body(x):
        doc, s = x
        rng = rng_for(s)
        stats.case()
        count[0] += 1
        sub = rng.choice(["path", "path", "pointer", "patch"])
        opts = rng.choice(list(all_opts(sub)))
        if rng.random() < 0.1:
            opts = dict(opts, debug=True)
        docb = json.dumps(doc, ensure_ascii=rng.random() < 0.5).encode("utf-8")
        if rng.random() < 0.07:
            docb = rng.choice(DOCS_BAD)
        if sub == "path":
            fg = FilterGen(rng, doc, depth=2, ext=rng.random() < 0.4)
            segs, _ = Q.gen_segments(rng, doc, nmax=3, kinds=("n", "i", "s", "w", "f"), filt=fg)
            expr = Renderer(rng if rng.random() < 0.5 else None).query(["q", "$", segs], top=True)
            if rng.random() < 0.2:
                from . import c06
                expr = c06.mutate(rng, expr)
            if "\x00" in expr:
                expr = expr.replace("\x00", "")
        elif sub == "pointer":
            parts, _ = rng.choice(list(nodes(doc)))
            toks = [str(p) for p in parts]
            if rng.random() < 0.3:
                toks = toks[:-1] + [rng.choice(["zz", "9", "-", "", "01"])] if toks else ["zz"]
            expr = P.encode(toks)
            if opts["uri_decode"] and "%" in expr:
                expr = expr.replace("%", "%25")
        else:
            ops = c05.gen_ops(rng, doc, 3)
            if rng.random() < 0.15:
                ops = rng.choice(PATCHES_BAD)
            expr = json.dumps(ops)
        if "\x00" in expr or (opts["expr_file"] and expr != expr.strip()):
            stats.excluded["file-sourced expression changed by .strip() (documented TODO)"] += 1
            return
        if not opts["expr_file"] and sub != "patch" and expr.startswith("-"):
            stats.excluded["inline expression that argparse reads as an option"] += 1
            return
        real = real_every and count[0] % real_every == 0
        r = judge(stats, sub, expr, docb, opts, "r%d" % (s % 7), real=real)
        stats.cls("%s:%s" % (sub, r))
        if real:
            stats.cls("subprocess")
        if nondefault(opts) >= 2 or r == "err":
            stats.nt(sub, canon(opts), expr, docb.decode("latin-1"))
            if len(stats.samples) < 4 and r in ("ok", "err"):
                stats.sample({"sub": sub, "options": {k: v for k, v in opts.items() if v}, "expression": expr[:160], "outcome": r})

    try:
        hyp_run(cases(), body, n, seed, stats)
    finally:
        shutil.rmtree(scratch_dir(), ignore_errors=True)
    return stats


def tasks(tier, seed):
    ts = [{"name": "encodings", "fn": "t_encodings"}]
    for sub, k in (("path", 5), ("pointer", 3), ("patch", 2)):
        ts += [{"name": "matrix-%s-%d" % (sub, i), "fn": "t_matrix", "kw": {"sub": sub, "shard": i, "nshards": k}} for i in range(k)]
    n = 1000 if tier == "quick" else 15000
    for k in range(6):
        ts.append({"name": "random-%d" % k, "fn": "t_random", "kw": {"seed": mix(seed, ID, k), "n": n, "real_every": 20}})
    return ts


def replay(case):
    stats = Stats()
    try:
        judge(stats, case["sub"], case["expr"], case["doc"].encode("latin-1"), case["opts"], "replay")
        judge(stats, case["sub"], case["expr"], case["doc"].encode("latin-1"), case["opts"], "replay", real=True)
    finally:
        shutil.rmtree(scratch_dir(), ignore_errors=True)
    return stats


def shrink(case, pred):
    return case
