"""C04 - JSON Pointer resolution conforms to RFC 6901 for every document and pointer."""
from __future__ import annotations

import itertools
import random

from hypothesis import strategies as st

from .. import lib
from ..gen import docs as D
from ..ref import rfc6901 as P
from ..run import Stats, hyp_run, mix, rng_for
from ..strict import canon, jtype, nodes, short

import jsonpath
from jsonpath import JSONPointer
from jsonpath.pointer import resolve as ptr_resolve

ID = "C04"
LEVEL = "exploration"
CLAIM = True
TECHNIQUE = ("property-based testing: every node of generated documents and every one-token mutation of its "
             "location resolved by the library and by an independent RFC 6901 reference; exhaustive enumeration of "
             "all pointers of <= 2 tokens over a 24-token alphabet x a 280-document universe")
LEVEL_TEXT = ("Exploration by generated-input search with a reference model: positive clause (the reference-encoded "
              "pointer of every node resolves to that very object through JSONPointer.resolve, pointer.resolve, "
              "resolve_parent, exists; escape decoding on whenever the text has no backslash, off always) and error "
              "clause (every RFC-unevaluable pointer raises JSONPointerResolutionError / returns the default, exists "
              "is false); documented extensions are excluded and counted. All pointers of <= 2 tokens over a delicate "
              "token alphabet x a small document universe are enumerated exhaustively.")
LEVEL_TEXT += ' Every pointer text is first handed over under the other flag settings (default decoding, URI decoding) before it is resolved with escape decoding off (history independence); the thorough tier adds an atheris campaign with the same reference oracle.'
BUDGET_S = {"quick": 70, "thorough": 700}
RULE = ("Documents from the nasty-name generator; for each node the pointer spelled by the reference encoder, and "
        "one-token mutations of it (absent member, integer look-alikes, index = len / len+1 / huge, '-', tokens "
        "applied to scalars). Oracle: vf/ref/rfc6901.resolve. Non-trivial = pointer has an escaped, non-ASCII, empty "
        "or integer-look-alike token, or is an error-clause case; distinct by (document, pointer text, flags).")
ASSUMPTIONS = [
    "reference resolver transcribes RFC 6901 section 4 (validated on the RFC's section 5 table in preflight)",
    "documented extensions (negative indices, #/~-prefixed key and index tokens, integers beyond 2**53-1, leading blanks) are excluded, not judged",
    "string root documents are not passed (a str argument is JSON text to the library)",
]

SENT = object()
LOOKALIKES = ["+1", " 1", "1 ", "01", "-0", "1_0", "１", "1.0", "1e0", "0x1", "00", "+0", "1\n", "١", "1\u0663", "1\uff11", "-1\uff10"]


BEYOND = ["9007199254740992", "-9007199254740992", "99999999999999999999"]


def tok_class(t):
    if t in BEYOND or (t.lstrip("-").isascii() and t.lstrip("-").isdigit() and P.is_canonical_index(t.lstrip("-")) and abs(int(t)) > P.MAX_INDEX):
        return "beyond-limit"
    if P.is_canonical_index(t):
        return "index"
    if t in LOOKALIKES or (t.strip().lstrip("+-").replace("_", "").isdigit() and not P.is_canonical_index(t)):
        return "lookalike"
    if t == "":
        return "empty"
    if t == "-":
        return "dash"
    if "~" in t or "/" in t:
        return "escaped"
    if "\\" in t:
        return "backslash"
    if not t.isascii():
        return "nonascii"
    return "plain"


def delicate(tokens):
    return any(tok_class(t) in ("lookalike", "empty", "escaped", "nonascii", "backslash", "dash") for t in tokens)


def routes(text):
    """(name, callable(doc) -> value) for every documented way to resolve `text`."""
    out = [
        ("JSONPointer(ue=False).resolve", lambda d: JSONPointer(text, unicode_escape=False).resolve(d)),
        ("pointer.resolve(ue=False)", lambda d: ptr_resolve(text, d, unicode_escape=False)),
    ]
    if "\\" not in text:
        out.append(("JSONPointer().resolve", lambda d: JSONPointer(text).resolve(d)))
        out.append(("pointer.resolve()", lambda d: ptr_resolve(text, d)))

    def after_other_flags(d):
        # the same text handed over first under the other flag settings (whose own outcome is not judged here): what the
        # escape-decoding-off pointer means must not depend on that history
        for kw in ({}, {"uri_decode": True}, {"unicode_escape": True, "uri_decode": True}):
            try:
                JSONPointer(text, **kw).resolve(d, default=None)
            except Exception:  # noqa: BLE001
                pass
            try:
                ptr_resolve(text, d, default=None, **kw)
            except Exception:  # noqa: BLE001
                pass
        return JSONPointer(text, unicode_escape=False).resolve(d)

    # first, so that a text new to this process meets the other flag settings before the judged one
    out.insert(0, ("JSONPointer(ue=False).resolve after the same text under other flags", after_other_flags))
    return out


def judge(stats: Stats, doc, tokens, origin):
    text = P.encode(tokens)
    kind, want = P.resolve(doc, tokens)
    case = {"doc": doc, "tokens": list(tokens), "origin": origin}
    if kind == P.EXT:
        stats.excluded["documented-extension:" + want] += 1
        return kind
    classes = sorted({tok_class(t) for t in tokens}) or ["root"]
    vkind = None
    if kind == P.ERR:
        # value kind the offending token met
        cur = doc
        for t in tokens:
            k2, nxt = P.step(cur, t)
            if k2 != P.OK:
                vkind = jtype(cur) + ":" + tok_class(t)
                break
            cur = nxt
    for name, fn in routes(text):
        stats.ev()
        try:
            got = fn(doc)
            err = None
        except Exception as e:  # noqa: BLE001
            got, err = None, e
        if kind == P.OK:
            if err is not None:
                stats.fail("pos:raised:%s:%s" % (type(err).__name__, "+".join(classes)), case,
                           "%s(%r) on %s raised %s: %s; RFC 6901 resolves it to %s" % (
                               name, text, short(doc, 200), type(err).__name__, err, short(want, 80)))
            elif not lib.same_node(got, want):
                stats.fail("pos:wrong-node:%s" % "+".join(classes), case,
                           "%s(%r) on %s = %s, RFC 6901 node is %s" % (name, text, short(doc, 200), short(got, 80), short(want, 80)))
        else:
            if err is None:
                stats.fail("neg:resolved:%s" % vkind, case,
                           "%s(%r) on %s = %s but RFC 6901 cannot evaluate it (%s)" % (name, text, short(doc, 200), short(got, 80), want))
            elif not isinstance(err, jsonpath.JSONPointerResolutionError):
                stats.fail("neg:wrong-error:%s:%s" % (type(err).__name__, vkind), case,
                           "%s(%r) raised %s: %s, expected a JSONPointerResolutionError" % (name, text, type(err).__name__, err))
    # exists / default / resolve_parent on the always-valid flag setting
    try:
        p = JSONPointer(text, unicode_escape=False)
    except Exception:  # noqa: BLE001  (reported above through the routes)
        return kind
    stats.ev()
    try:
        ex = p.exists(doc)
        dv = p.resolve(doc, default=SENT)
        dv2 = ptr_resolve(text, doc, default=SENT, unicode_escape=False)
    except Exception as e:  # noqa: BLE001
        stats.fail("aux:raised:%s:%s" % (type(e).__name__, kind), case, "exists/default for %r raised %r" % (text, e))
        return kind
    if kind == P.OK:
        if ex is not True:
            stats.fail("exists:false-on-resolvable", case, "exists(%r) is %r on %s" % (text, ex, short(doc, 200)))
        if not lib.same_node(dv, want) or not lib.same_node(dv2, want):
            stats.fail("default:wrong-on-resolvable", case, "resolve(default=S)(%r) = %s" % (text, short(dv, 80)))
        try:
            parent, obj = p.resolve_parent(doc)
            if tokens:
                _, wparent = P.resolve(doc, tokens[:-1])
                if not (lib.same_node(obj, want) and parent is wparent):
                    stats.fail("resolve_parent:wrong", case, "resolve_parent(%r) = (%s, %s)" % (text, short(parent, 60), short(obj, 60)))
            elif parent is not None or not lib.same_node(obj, want):
                stats.fail("resolve_parent:wrong-root", case, "resolve_parent('') = (%s, %s)" % (short(parent, 60), short(obj, 60)))
        except Exception as e:  # noqa: BLE001
            stats.fail("resolve_parent:raised:%s" % type(e).__name__, case, "resolve_parent(%r) raised %r" % (text, e))
    else:
        if ex is not False:
            stats.fail("exists:true-on-unresolvable:%s" % vkind, case, "exists(%r) is %r on %s" % (text, ex, short(doc, 200)))
        if dv is not SENT or dv2 is not SENT:
            stats.fail("default:not-returned:%s" % vkind, case,
                       "resolve(%r, default=S) = %s, expected the caller's default itself" % (text, short(dv if dv is not SENT else dv2, 80)))
    return kind


# ------------------------------------------------------------------ random part


def mutations(rng, doc, parts, value):
    """one-token mutations of an existing location"""
    toks = [str(p) for p in parts]
    out = []
    if toks:
        parent_kind, parent = P.resolve(doc, toks[:-1])
        last = toks[-1]
        alts = []
        if isinstance(parent, list):
            n = len(parent)
            alts = [str(n), str(n + 1), "-", "99999999999", "0" + last, "+" + last, " " + last, last + " ",
                    last + "_0", last + ".0", "a", "", "０"]
        elif isinstance(parent, dict):
            alts = [last + "x", "", "0", "length", " " + last, last + " ", "+" + last if last.isdigit() else "zz"]
            alts += [a for a in LOOKALIKES]
        for a in rng.sample(alts, min(4, len(alts))):
            out.append(toks[:-1] + [a])
    # tokens applied below this node
    for t in rng.sample(["0", "", "a", "length", "-", "1", "+1", " 0"], 3):
        out.append(toks + [t])
    return out


@st.composite
def cases(draw):
    names = st.one_of(st.sampled_from(D.NASTY), st.sampled_from(D.NASTY), st.sampled_from(D.INT_LIKE),
                      st.sampled_from(D.HIT), D._text)
    doc = draw(D.containers(name_st=names, max_leaves=10))
    return doc, draw(st.integers(0, 2**32 - 1))


def t_random(seed, n):
    stats = Stats()

    def body(x):
        doc, s = x
        rng = rng_for(s)
        stats.case()
        allnodes = list(nodes(doc))
        if len(allnodes) > 14:
            allnodes = [allnodes[0]] + rng.sample(allnodes[1:], 13)
        for parts, value in allnodes:
            toks = [str(p) for p in parts]
            k = judge(stats, doc, toks, "node")
            if delicate(toks):
                stats.nt("pos", canon(doc), P.encode(toks))
            for t in toks:
                stats.cls("tok:" + tok_class(t))
        parts, value = rng.choice(allnodes)
        for mt in mutations(rng, doc, parts, value):
            k = judge(stats, doc, mt, "mutation")
            stats.cls("mutation:" + k)
            if k != P.EXT:
                stats.nt("mut", canon(doc), P.encode(mt))
        if len(stats.samples) < 4:
            stats.sample({"document": short(doc, 160), "pointer": P.encode([str(p) for p in parts])})

    hyp_run(cases(), body, n, seed, stats)
    return stats


# ------------------------------------------------------------------ exhaustive part

T = ["a", "0", "1", "2", "~", "/", "é", "#", "", "-", "+1", " 1", "1 ", "01", "-0", "1_0", "１", "1.0", "1e0", "0x1",
     "~1", "~0", "10", "length", "1\u0663", "11", "1\uff11"]
E = ["s", 7, None, [10, 11], {"0": "z", "a": "y", "+1": "w", "1": "v"}]


def universe():
    docs = []
    for n in range(0, 3):
        for combo in itertools.product(E, repeat=n):
            docs.append(list(combo))
    i = 0
    for a, b in itertools.combinations(T, 2):
        docs.append({a: E[i % 5], b: E[(i // 5 + 2) % 5]})
        i += 1
    for a in T:
        docs.append({a: E[3]})
    docs += [{}, 7, None, True, 1.5]
    import json as _json
    return [_json.loads(_json.dumps(d)) for d in docs]  # no aliasing between locations


def t_exhaustive(shard, nshards):
    stats = Stats()
    docs = universe()
    n = 0
    ptrs = [[]] + [[a] for a in T] + [[a, b] for a in T for b in T]
    for di, doc in enumerate(docs):
        if di % nshards != shard:
            continue
        for toks in ptrs:
            k = judge(stats, doc, toks, "exhaustive")
            n += 1
            if k != P.EXT and (delicate(toks) or k == P.ERR):
                stats.nt("x", di, P.encode(toks))
    stats.cls("x:docs-in-shard")
    stats.subspaces.append({"name": "all pointers of <= 2 tokens over %d-token alphabet x documents %d mod %d of %d" % (
        len(T), shard, nshards, len(docs)), "size": n, "exhaustive": True})
    stats.sample({"document": short(doc), "pointer": P.encode(toks)})
    return stats


def t_beyond():
    """object members whose names are integers beyond the index limit: RFC 6901 resolves them like any other member"""
    stats = Stats()
    n = 0
    for b in BEYOND:
        for doc in ({b: [10, 11], "a": 1}, {"x": {b: {"k": None}}}, [{b: 0}]):
            for parts, _ in list(nodes(doc)):
                toks = [str(p) for p in parts]
                if b in toks:
                    judge(stats, doc, toks, "beyond-limit")
                    n += 1
                    stats.nt("beyond", canon(doc), P.encode(toks))
    # names exactly at and just inside the limit are ordinary names / indices: they must resolve (and, on arrays, be out of range)
    for b in ("9007199254740991", "-9007199254740991", "9007199254740990", "-9007199254740990", "900719925474099", "99999999999"):
        for doc in ({b: [10, 11], "a": 1}, {"x": {b: {"k": None}}}, [{b: 0}], [1, 2], {"a": [0]}):
            for parts, _ in list(nodes(doc)):
                toks = [str(p) for p in parts]
                if b in toks:
                    judge(stats, doc, toks, "at-limit")
                    n += 1
                    stats.nt("at-limit", canon(doc), P.encode(toks))
            judge(stats, doc, [b], "at-limit")
            judge(stats, doc, ["a", b], "at-limit")
            n += 2
    stats.subspaces.append({"name": "member names that are integers beyond, at and just inside +-(2**53-1) x 3-5 document shapes", "size": n, "exhaustive": True})
    return stats


def t_long():
    """arrays of 1000 elements, objects of 300 members, pointers of up to 99 tokens: every sampled node and the usual one-token faults"""
    from ..gen import longq
    stats = Stats()
    n = 0
    doc = {"a": list(range(1000)), "o": {"k%d" % i: [i] for i in range(300)}, "deep": longq.deep_a(98, leaf=[0, 1]), "": {"": {"": [7]}}}
    idx = [0, 1, 9, 10, 11, 63, 64, 65, 99, 100, 101, 255, 256, 998, 999]
    for i in idx:
        judge(stats, doc, ["a", str(i)], "long")
        judge(stats, doc, ["o", "k%d" % min(i, 299)], "long")
        judge(stats, doc, ["o", "k%d" % min(i, 299), "0"], "long")
        n += 3
    for bad in ("1000", "1001", "0999", "00", "-", "10000000", "1e2", "99 ", " 99", "+99", "٩٩"):
        judge(stats, doc, ["a", bad], "long")
        judge(stats, doc, ["o", "k1", bad], "long")
        n += 2
    for bad in ("k300", "k", "K1", "k01", "k1 ", "1"):
        judge(stats, doc, ["o", bad], "long")
        n += 1
    for depth in (1, 10, 50, 97, 98):
        judge(stats, doc, ["deep"] + ["a"] * depth, "long")
        n += 1
    for tail in (["0"], ["1"], ["2"], ["a"], ["-"], ["0", "0"]):
        judge(stats, doc, ["deep"] + ["a"] * 98 + tail, "long")
        n += 1
    for toks in (["", "", "", "0"], ["", "", "", "1"], ["", "", ""], ["", ""], [""], ["", "", "", "0", ""]):
        judge(stats, doc, toks, "long")
        n += 1
    stats.nt("long", n)
    stats.subspaces.append({"name": "pointers into a 1000-element array, a 300-member object, a 99-deep chain and empty-named members; 3- and 4-digit indices, faults at the far end",
                            "size": n, "exhaustive": True})
    return stats


def tasks(tier, seed):
    ts = [{"name": "long", "fn": "t_long"}]
    ts += [{"name": "exhaustive-%d" % k, "fn": "t_exhaustive", "kw": {"shard": k, "nshards": 16}} for k in range(16)]
    ts.append({"name": "beyond-limit", "fn": "t_beyond"})
    n = 600 if tier == "quick" else 12000
    for k in range(16):
        ts.append({"name": "random-%d" % k, "fn": "t_random", "kw": {"seed": mix(seed, ID, k), "n": n}})
    if tier == "thorough":
        ts.append({"name": "atheris", "fn": "t_atheris", "kw": {"seed": seed, "seconds": 180}})
    return ts


def t_atheris(seed, seconds):
    """coverage-guided campaign (thorough tier): the same oracle inside an atheris target; findings come back as failures"""
    from ..fuzz import driver
    return driver.run_campaigns(seed, seconds, plans=[("c04-pointer", "empty")], death_hook=False)


def replay(case):
    stats = Stats()
    judge(stats, case["doc"], case["tokens"], case.get("origin", "replay"))
    return stats
