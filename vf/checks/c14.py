"""C14 - JSON Pointer text, tokens and navigation operations are mutually consistent."""
from __future__ import annotations

import itertools
import random

from hypothesis import strategies as st
from hypothesis.stateful import RuleBasedStateMachine, invariant, rule

from .. import lib
from ..ref import rfc6901 as P
from ..run import Stats, hyp_run, mix, run_machine, rng_for
from ..strict import short

from jsonpath import JSONPointer

ID = "C14"
LEVEL = "exploration"
CLAIM = True
TECHNIQUE = ("property-based testing of algebraic laws (parse/print round trip, equality iff equal token sequences across "
             "construction routes, from_parts, join / slash / parent / is_relative_to, resolution after join) with an "
             "RFC 6901 reference encoder; exhaustive over all token sequences of length <= 3 from a 20-token alphabet; "
             "Hypothesis rule-based state machine over join/parent/reparse histories")
LEVEL_TEXT = ("Exploration by generated-input search against algebraic laws with the reference encoder as oracle: L1 "
              "str(JSONPointer(s)) == s; L2 pointers built by any two routes are equal (and hash-equal) iff their reference "
              "token sequences are equal; L3 from_parts prints the RFC spelling and re-parses equal; L4 join/slash laws incl. "
              "parent, is_relative_to, resolution, '/'-prefixed part replaces, 'a/b' appends two tokens; L5 root.parent() is "
              "root. All token sequences of length <= 3 over a delicate 20-token alphabet are enumerated; a state machine "
              "explores join/parent/reparse/from_parts histories against a token-list model.")
LEVEL_TEXT += ' Inequality is demanded too: the prefix, suffix, extensions, doubled-last, reversed and root variants of every token sequence must be unequal to it by == and != in both operand orders.'
BUDGET_S = {"quick": 60, "thorough": 500}
RULE = ("Token sequences over {'', a, 0, 1, 10, 01, -1, +1, ' 1', 1_0, ~, /, ~0, ~1, ~01, #, -, e-acute, emoji, ' '} and "
        "arbitrary text without backslashes; construction routes: parse of the reference spelling, from_parts (str tokens, "
        "int for canonical indices), join/slash chains, parent() of extensions. Non-trivial = the sequence has a delicate "
        "token (escaped, empty, non-ASCII, non-canonical integer look-alike); distinct by (token tuple, law).")
ASSUMPTIONS = [
    "pointer strings and join arguments contain no backslash; join arguments have no leading blanks (the statement's restriction)",
    "reference encoder/decoder from RFC 6901 section 3/4 (self-tested in preflight)",
]

ALPHA = ["", "a", "0", "1", "10", "01", "-1", "+1", " 1", "1_0", "~", "/", "~0", "~1", "~01", "#", "-", "é", "😀", " "]
# integer tokens at and just inside the documented index limits (tokens beyond them are a documented refusal, not generated)
BOUNDARY = ["9007199254740991", "-9007199254740991", "9007199254740990", "-9007199254740990", "1000000000000000", "-1000000000000000",
            "999999999999999", "-999999999999999", "4294967296", "-4294967296", "2147483648"]


def delicate(toks):
    return any((t == "" or not t.isascii() or "~" in t or "/" in t or
                (t.strip().lstrip("+-").replace("_", "").isdigit() and not P.is_canonical_index(t))) for t in toks)


def routes(toks):
    """name -> pointer built from the token sequence by a different route"""
    text = P.encode(toks)
    out = {"parse": lambda: JSONPointer(text), "parse-noesc": lambda: JSONPointer(text, unicode_escape=False),
           "from_parts": lambda: JSONPointer.from_parts(list(toks)),
           "from_parts-int": lambda: JSONPointer.from_parts([int(t) if P.is_canonical_index(t) else t for t in toks])}
    if all(t == t.lstrip() for t in toks):
        def joined():
            p = JSONPointer("")
            for t in toks:
                p = p / P.escape(t)
            return p
        out["slash-chain"] = joined
        out["join"] = lambda: JSONPointer("").join(*[P.escape(t) for t in toks]) if toks else JSONPointer("")
    out["parent-of-extension"] = lambda: JSONPointer(P.encode(list(toks) + ["x"])).parent()
    return out


def build_doc(toks, rng):
    """a document that contains the location `toks`; returns (doc, leaf)"""
    leaf = {"leaf": True}
    node = leaf
    for t in reversed(toks):
        if P.is_canonical_index(t) and int(t) < 4 and rng.random() < 0.5:
            arr = [None] * (int(t) + 1)
            arr[int(t)] = node
            node = arr
        else:
            node = {"zz" if t != "zz" else "yy": 0, t: node}  # the filler member must not collide with the token
    return node, leaf


def laws(stats: Stats, toks, rng, origin):
    toks = list(toks)
    case = {"tokens": toks, "origin": origin}
    text = P.encode(toks)
    built = {}
    for name, fn in routes(toks).items():
        stats.ev()
        try:
            built[name] = fn()
        except Exception as e:  # noqa: BLE001
            stats.fail("route-raised:%s:%s" % (name, type(e).__name__), case, "building %r via %s raised %s: %s" % (text, name, type(e).__name__, e))
    # L1 / L3: printed form
    for name, p in built.items():
        if str(p) != text:
            stats.fail("print:%s" % name, case, "pointer for tokens %r built via %s prints %r, RFC 6901 spelling is %r" % (toks, name, str(p), text))
    # L2: all routes equal and hash-equal
    names = sorted(built)
    for a, b in itertools.combinations(names, 2):
        stats.ev()
        if not (built[a] == built[b] and built[b] == built[a]):
            stats.fail("equal:%s!=%s" % (a, b), case, "tokens %r: pointer via %s != pointer via %s" % (toks, a, b))
        elif hash(built[a]) != hash(built[b]):
            stats.fail("hash:%s/%s" % (a, b), case, "tokens %r: equal pointers via %s and %s hash differently" % (toks, a, b))
    if "parse" not in built:
        return
    p = built["parse"]
    # L2, "only if": a different token sequence (a prefix, an extension, a sequence with one token dropped, doubled or the
    # order reversed) gives an unequal pointer by every route, in both operand orders
    variants = {}
    if toks:
        variants["prefix"] = toks[:-1]
        variants["suffix"] = toks[1:]
        variants["doubled-last"] = toks + toks[-1:]
        variants["reversed"] = toks[::-1]
        variants["root"] = []
    variants["extended"] = toks + [rng.choice(ALPHA)]
    variants["extended-empty"] = toks + [""]
    variants["empty-first"] = [""] + toks
    for vname, other in variants.items():
        if other == toks:
            continue
        oroutes = routes(other)
        for rb in ("parse", "from_parts", rng.choice(sorted(oroutes))):
            try:
                q = oroutes[rb]()
            except Exception:  # noqa: BLE001  (reported when `other` is itself judged)
                continue
            ra = rng.choice(names)
            stats.ev()
            a = built[ra]
            if a == q or q == a or not (a != q) or not (q != a):
                stats.fail("unequal-tokens-equal-pointers:%s" % vname, case, "tokens %r (%s) and %r (%s): == gives %r / %r, != gives %r / %r" % (
                    toks, ra, other, rb, a == q, q == a, a != q, q != a))
    # L5 / parent
    stats.ev()
    if toks:
        par = p.parent()
        if str(par) != P.encode(toks[:-1]):
            stats.fail("parent:text", case, "parent of %r prints %r" % (text, str(par)))
        if not p.is_relative_to(par) or par.is_relative_to(p):
            stats.fail("is_relative_to:parent", case, "%r / its parent: is_relative_to gives %r / %r" % (text, p.is_relative_to(par), par.is_relative_to(p)))
    else:
        if not (p.parent() == p and str(p.parent()) == ""):
            stats.fail("parent:root", case, "parent of the root pointer is %r" % str(p.parent()))
    if p.is_relative_to(p):
        stats.fail("is_relative_to:self", case, "%r is relative to itself" % text)
    # resolution of the parsed pointer on a document built to contain it
    doc, leaf = build_doc(toks, rng)
    try:
        if p.resolve(doc) is not leaf:
            stats.fail("resolve:wrong-node", case, "%r on %s resolved to another node" % (text, short(doc, 200)))
    except Exception as e:  # noqa: BLE001
        stats.fail("resolve:raised:%s" % type(e).__name__, case, "%r on %s: %s" % (text, short(doc, 200), e))
    # L4: join a further token
    for t in ALPHA + BOUNDARY:
        if t != t.lstrip():
            continue
        if rng.random() > (0.35 if t in ALPHA else 0.1):
            continue
        e = P.escape(t)
        stats.ev()
        try:
            j1, j2 = p.join(e), p / e
        except Exception as ex:  # noqa: BLE001
            stats.fail("join:raised:%s" % type(ex).__name__, case, "%r join %r raised %s" % (text, e, ex))
            continue
        c2 = {"tokens": toks, "join": t, "origin": origin}
        want = text + "/" + e
        if not (j1 == j2 and str(j1) == want and str(j2) == want):
            stats.fail("join:text", c2, "%r joined with %r prints %r / %r, expected %r" % (text, e, str(j1), str(j2), want))
            continue
        if not (j1.parent() == p and str(j1.parent()) == text):
            stats.fail("join:parent", c2, "parent of %r is %r, expected %r" % (want, str(j1.parent()), text))
        if not j1.is_relative_to(p) or p.is_relative_to(j1):
            stats.fail("join:is_relative_to", c2, "%r vs %r: is_relative_to %r / %r" % (want, text, j1.is_relative_to(p), p.is_relative_to(j1)))
        if j1 != JSONPointer(want):
            stats.fail("join:not-equal-to-parsed", c2, "%r built by join != JSONPointer(%r)" % (want, want))
        doc2, leaf2 = build_doc(toks + [t], rng)
        try:
            if j1.resolve(doc2) is not leaf2:
                stats.fail("join:resolve", c2, "%r on %s resolved to another node" % (want, short(doc2, 200)))
        except Exception as ex:  # noqa: BLE001
            stats.fail("join:resolve-raised:%s" % type(ex).__name__, c2, "%r on %s: %s" % (want, short(doc2, 200), ex))
    # a part that starts with a slash replaces; a part with a slash appends two tokens
    stats.ev()
    try:
        r = p.join("/x/y")
        if str(r) != "/x/y" or r != JSONPointer("/x/y"):
            stats.fail("join:slash-replaces", case, "%r.join('/x/y') = %r" % (text, str(r)))
        for part, toks2 in (("//x", ["", "x"]), ("//", ["", ""]), ("///y", ["", "", "y"]), ("/a//b", ["a", "", "b"]), ("/", [""])):
            r3 = p.join(part)
            r4 = p / part
            if str(r3) != part or str(r4) != part or r3 != JSONPointer.from_parts(toks2) or r4 != JSONPointer(part):
                stats.fail("join:absolute-part-with-empty-token", dict(case, join=part), "%r joined with %r gives %r / %r, expected the pointer %r (tokens %r)" % (
                    text, part, str(r3), str(r4), part, toks2))
        r2 = p / "u/v"
        if str(r2) != text + "/u/v" or str(r2.parent().parent()) != text:
            stats.fail("join:two-tokens", case, "%r / 'u/v' = %r" % (text, str(r2)))
    except Exception as ex:  # noqa: BLE001
        stats.fail("join:raised2:%s" % type(ex).__name__, case, str(ex))


def t_exhaustive(shard, nshards, maxlen=3):
    stats = Stats()
    n = 0
    rng = random.Random(shard)
    seqs = [()] + [(a,) for a in ALPHA] + list(itertools.product(ALPHA, repeat=2)) + list(itertools.product(ALPHA, repeat=3))
    if maxlen >= 4:
        seqs += list(itertools.product(ALPHA, repeat=4))
    for i, toks in enumerate(seqs):
        if i % nshards != shard:
            continue
        laws(stats, toks, rng, "exhaustive")
        n += 1
        if delicate(toks):
            stats.nt("x", repr(toks))
    if shard == 0:
        for b in BOUNDARY:
            for pre in ((), ("a",), ("0", "~")):
                laws(stats, list(pre) + [b], rng, "boundary")
                laws(stats, [b] + list(pre), rng, "boundary")
                n += 2
                stats.nt("boundary", b, repr(pre))
    # inequality: different token sequences must give unequal pointers (pairs differing in one token)
    for a, b in itertools.combinations(ALPHA, 2):
        if (ALPHA.index(a) + ALPHA.index(b)) % nshards != shard:
            continue
        for pre in ((), ("a",), ("0",)):
            ta, tb = list(pre) + [a], list(pre) + [b]
            for ra, fa in routes(ta).items():
                for rb, fb in routes(tb).items():
                    stats.ev()
                    try:
                        if fa() == fb():
                            stats.fail("unequal-tokens-equal-pointers:%s/%s" % (ra, rb), {"tokens": ta, "other": tb, "origin": "pairs"},
                                       "tokens %r (%s) and %r (%s) give equal pointers" % (ta, ra, tb, rb))
                    except Exception:  # noqa: BLE001  (reported by laws())
                        pass
    stats.subspaces.append({"name": "token sequences of length <= %d over the 20-token alphabet, shard %d/%d; one-token-different pairs x routes" % (maxlen, shard, nshards),
                            "size": n, "exhaustive": True})
    return stats


def t_random(seed, n):
    stats = Stats()
    tok = st.one_of(st.sampled_from(ALPHA), st.sampled_from(ALPHA + BOUNDARY),
                    st.text(alphabet=st.characters(codec="utf-8", exclude_categories=["Cs"], exclude_characters="\\"), max_size=5))

    def body(x):
        toks, s = x
        stats.case()
        laws(stats, toks, rng_for(s), "random")
        if delicate(toks):
            stats.nt("r", repr(toks))
        if len(stats.samples) < 4:
            stats.sample({"tokens": toks, "text": P.encode(toks)})

    hyp_run(st.tuples(st.lists(tok, max_size=6), st.integers(0, 2**32 - 1)), body, n, seed, stats)
    return stats


# ------------------------------------------------------------------ state machine: histories of join / parent / reparse

_MSTATS = None


class PointerMachine(RuleBasedStateMachine):
    def __init__(self):
        super().__init__()
        self.p = JSONPointer("")
        self.model = []
        self.hist = []

    def _fail(self, sig, detail):
        _MSTATS.fail(sig, {"history": list(self.hist), "origin": "machine"}, detail)

    @rule(t=st.sampled_from([a for a in ALPHA if a == a.lstrip()]))
    def join(self, t):
        self.hist.append(["join", t])
        self.p = self.p.join(P.escape(t))
        self.model.append(t)

    @rule(t=st.sampled_from([a for a in ALPHA if a == a.lstrip()]), u=st.sampled_from(ALPHA))
    def slash_two(self, t, u):
        self.hist.append(["slash2", t, u])
        self.p = self.p / (P.escape(t) + "/" + P.escape(u))
        # a part that starts with a slash replaces the pointer (documented): t == "" gives "/u"
        self.model = [u] if t == "" else self.model + [t, u]

    @rule()
    def parent(self):
        self.hist.append(["parent"])
        self.p = self.p.parent()
        self.model = self.model[:-1]

    @rule()
    def reparse(self):
        self.hist.append(["reparse"])
        self.p = JSONPointer(str(self.p))

    @rule()
    def from_parts(self):
        self.hist.append(["from_parts"])
        self.p = JSONPointer.from_parts(list(self.model))

    @rule(t=st.sampled_from(ALPHA), u=st.sampled_from(ALPHA))
    def replace_two(self, t, u):
        self.hist.append(["replace2", t, u])
        self.p = self.p.join("/" + P.escape(t) + "/" + P.escape(u))
        self.model = [t, u]

    @rule(t=st.sampled_from(ALPHA))
    def replace(self, t):
        self.hist.append(["replace", t])
        self.p = self.p.join("/" + P.escape(t))
        self.model = [t]

    @invariant()
    def agrees(self):
        _MSTATS.ev()
        want = P.encode(self.model)
        if str(self.p) != want:
            self._fail("machine:text", "after %s the pointer prints %r, model tokens %r print %r" % (self.hist, str(self.p), self.model, want))
        elif not (self.p == JSONPointer(want) and hash(self.p) == hash(JSONPointer(want))):
            self._fail("machine:equality", "after %s the pointer %r is not equal/hash-equal to JSONPointer(%r)" % (self.hist, str(self.p), want))
        if len(self.hist) >= 3:
            _MSTATS.nt("m", repr(self.hist))


def t_machine(seed, n):
    global _MSTATS
    _MSTATS = Stats()
    try:
        run_machine(PointerMachine, n, 25, seed, _MSTATS)
    except Exception as e:  # noqa: BLE001  - library raising inside a rule
        _MSTATS.fail("machine:raised:%s" % type(e).__name__, {"origin": "machine", "error": repr(e)}, repr(e))
    _MSTATS.generated += n
    _MSTATS.cls("machine-runs")
    return _MSTATS


def replay_history(stats, hist):
    p, model = JSONPointer(""), []
    for step in hist:
        if step[0] == "join":
            p = p.join(P.escape(step[1])); model.append(step[1])
        elif step[0] == "slash2":
            p = p / (P.escape(step[1]) + "/" + P.escape(step[2])); model = [step[2]] if step[1] == "" else model + [step[1], step[2]]
        elif step[0] == "parent":
            p = p.parent(); model = model[:-1]
        elif step[0] == "reparse":
            p = JSONPointer(str(p))
        elif step[0] == "from_parts":
            p = JSONPointer.from_parts(list(model))
        elif step[0] == "replace":
            p = p.join("/" + P.escape(step[1])); model = [step[1]]
        elif step[0] == "replace2":
            p = p.join("/" + P.escape(step[1]) + "/" + P.escape(step[2])); model = [step[1], step[2]]
        stats.ev()
        want = P.encode(model)
        if str(p) != want:
            stats.fail("machine:text", {"history": hist, "origin": "machine"}, "pointer prints %r, model %r" % (str(p), want))
            return
        if not (p == JSONPointer(want) and hash(p) == hash(JSONPointer(want))):
            stats.fail("machine:equality", {"history": hist, "origin": "machine"}, "pointer %r not equal to parsed %r" % (str(p), want))
            return


def t_long():
    """pointers of 10 .. 99 tokens and tokens of 1000 characters through every law"""
    stats = Stats()
    rng = random.Random(43)
    n = 0
    for length in (9, 10, 11, 32, 33, 64, 65, 99):
        for _ in range(6):
            toks = [rng.choice(ALPHA) for _ in range(length)]
            laws(stats, toks, rng, "long")
            n += 1
        laws(stats, [str(i) for i in range(length)], rng, "long")
        laws(stats, [""] * length, rng, "long")
        laws(stats, ["~"] * length, rng, "long")
        n += 3
        stats.nt("long", length)
    for tok in ("a" * 1000, "~/" * 400, "0" * 300, "9" * 15, "é" * 500):
        laws(stats, [tok], rng, "long")
        laws(stats, ["x", tok, "y"], rng, "long")
        n += 2
    stats.subspaces.append({"name": "token sequences of 9..99 tokens (random, all-index, all-empty, all-tilde) and tokens of up to 1000 characters", "size": n, "exhaustive": True})
    return stats


def tasks(tier, seed):
    ts = _tasks(tier, seed)
    ts.append({"name": "long", "fn": "t_long"})
    return ts


def _tasks(tier, seed):
    if tier == "quick":
        ts = [{"name": "exhaustive-%d" % k, "fn": "t_exhaustive", "kw": {"shard": k, "nshards": 10}} for k in range(10)]
    else:
        ts = [{"name": "exhaustive4-%d" % k, "fn": "t_exhaustive", "kw": {"shard": k, "nshards": 48, "maxlen": 4}} for k in range(48)]
    n = 4000 if tier == "quick" else 40000
    for k in range(3 if tier == "quick" else 8):
        ts.append({"name": "random-%d" % k, "fn": "t_random", "kw": {"seed": mix(seed, ID, k), "n": n}})
    for k in range(3 if tier == "quick" else 8):
        ts.append({"name": "machine-%d" % k, "fn": "t_machine", "kw": {"seed": mix(seed, ID, "m", k), "n": 600 if tier == "quick" else 8000}})
    return ts


def replay(case):
    stats = Stats()
    if "history" in case:
        replay_history(stats, case["history"])
    elif "other" in case:
        ta, tb = case["tokens"], case["other"]
        for ra, fa in routes(ta).items():
            for rb, fb in routes(tb).items():
                try:
                    if fa() == fb():
                        stats.fail("unequal-tokens-equal-pointers:%s/%s" % (ra, rb), case, "equal pointers for different tokens")
                except Exception:  # noqa: BLE001
                    pass
    else:
        laws(stats, case["tokens"], random.Random(0), case.get("origin", "replay"))
        # join laws are sampled with p=0.35 in laws(); replay them all
        if "join" in case:
            rng = random.Random(1)
            for _ in range(12):
                laws(stats, case["tokens"], rng, "replay")
    return stats
