"""C10 - a compiled query's string form recompiles to an equivalent query."""
from __future__ import annotations

import copy
import itertools
import random

from hypothesis import strategies as st

from .. import lib
from ..gen import docs as D
from ..gen import queries as Q
from ..gen.filters import FilterGen
from ..gen.render import Renderer
from ..run import Stats, hyp_run, mix, rng_for
from ..strict import canon, short
from . import c06

import jsonpath

ID = "C10"
LEVEL = "exploration"
CLAIM = True
TECHNIQUE = ("round-trip + differential property-based testing: compile(q) -> str -> compile -> str must be a fixed point and "
             "both compiled queries must give the same matches (values, parts) or the same error class on a panel of "
             "documents; generated standard and extension ASTs in every spelling, fuzzed accepted strings, exhaustive filter "
             "skeletons and literal spellings")
LEVEL_TEXT = ("Exploration by generated programs with the library's own evaluator on both sides of a round trip (C01/C02/C13 tie "
              "the left side to independent models): for every accepted query text the string form must compile, be a fixed "
              "point, and evaluate identically on the generating document and a 14-document panel, with filter contexts. All "
              "filter skeletons of depth <= 3 over {!, &&, ||, parentheses, ==} with three atoms, numeric and string literal "
              "spellings, regex flag subsets and compound structures are enumerated.")
LEVEL_TEXT += ' Also: float literals (Hypothesis floats in three spellings) against themselves and both neighbouring doubles; indices / bounds / literals spelled with non-ASCII digits; the thorough tier adds an atheris campaign with the same round-trip oracle.'
BUDGET_S = {"quick": 75, "thorough": 600}
RULE = ("(a) standard ASTs in every spelling, (b) extension ASTs (fake root, keys, #, _, in/contains, regex flags, list literals, "
        "undefined, compound | and &), (c) accepted strings from C06's token soup / mutation generators. Non-trivial = the filter "
        "has >= 2 operators of different precedence or a negated compound/comparison, or a literal needing escapes, or an "
        "extension identifier - and a non-empty result on some panel document; distinct by text.")
ASSUMPTIONS = ["the library evaluates both sides of the comparison; C01/C02/C13 anchor the left side to the reference models"]

CTX = c06.CTX
PANEL = [d for d in c06.PANEL if not isinstance(d, str)]


def outcome(path, doc):
    try:
        return "ok", [(tuple(m.parts), m.obj) for m in path.finditer(doc, filter_context=CTX)]
    except Exception as e:  # noqa: BLE001
        return "err", type(e).__name__


def same_outcome(a, b):
    if a[0] != b[0]:
        return False
    if a[0] == "err":
        return a[1] == b[1]
    return len(a[1]) == len(b[1]) and all(x[0] == y[0] and _same(x, y) for x, y in zip(a[1], b[1]))


def _same(x, y):
    if lib.same_node(x[1], y[1]):
        return True
    # the fake root's own match is a fresh one-element wrapper list around the document at every evaluation
    return (x[0] == () and isinstance(x[1], list) and isinstance(y[1], list) and len(x[1]) == len(y[1]) == 1
            and lib.same_node(x[1][0], y[1][0]))


def judge(stats: Stats, text, docs, origin, env=None):
    env = env or jsonpath.DEFAULT_ENV
    case = {"text": text, "origin": origin}
    try:
        p = env.compile(text)
    except Exception:  # noqa: BLE001 - acceptance is C06/C07's subject
        return "rejected", False
    stats.ev()
    try:
        s = str(p)
    except Exception as e:  # noqa: BLE001
        stats.fail("str-raised:%s" % type(e).__name__, case, "str(compile(%r)) raised %s: %s" % (text, type(e).__name__, e))
        return "str-raised", False
    case["string_form"] = s
    try:
        p2 = env.compile(s)
    except Exception as e:  # noqa: BLE001
        stats.fail("recompile-rejected:%s:%s" % (type(e).__name__, lib.norm_msg(e)), case,
                   "compile(%r) prints %r which does not compile: %s: %s" % (text, s, type(e).__name__, e))
        return "recompile-rejected", False
    s2 = str(p2)
    if s2 != s:
        stats.fail("not-fixed-point", case, "compile(%r) prints %r; recompiled it prints %r" % (text, s, s2))
    nonempty = False
    for i, doc in enumerate(docs):
        stats.ev()
        a = outcome(p, doc)
        b = outcome(p2, doc)
        if a[0] == "ok" and a[1]:
            nonempty = True
        if not same_outcome(a, b):
            c2 = dict(case)
            c2["doc"] = doc
            stats.fail("different-result:%s" % shape(text), c2,
                       "%r and its string form %r differ on %s: %s vs %s" % (text, s, short(doc, 140), short(a, 140), short(b, 140)))
            break
    return "ok", nonempty


def shape(text):
    tags = []
    if "!" in text or "not " in text:
        tags.append("neg")
    if "^" in text:
        tags.append("fakeroot")
    if " | " in text or " & " in text:
        tags.append("compound")
    if "=~" in text:
        tags.append("regex")
    return "+".join(tags) or "plain"


def interesting(text):
    ops = sum(1 for t in ("&&", "||", " and ", " or ") if t in text)
    return (ops >= 1 and ("!" in text or "not " in text or ops >= 2)) or "\\" in text or any(
        t in text for t in ("^", "#", "_", "~", " in ", " contains ", "=~", "undefined", "missing", " | ", " & "))


@st.composite
def cases(draw):
    return draw(D.containers(max_leaves=10)), draw(st.integers(0, 2**32 - 1)), draw(st.sampled_from(["std", "ext", "ext", "soup", "mutation"]))


def t_random(seed, n):
    stats = Stats()

    def body(x):
        doc, s, mode = x
        rng = rng_for(s)
        stats.case()
        if mode in ("std", "ext"):
            ext = mode == "ext"
            fg = FilterGen(rng, doc, depth=3, ext=ext, ctx_data=CTX)
            kinds = ("n", "i", "s", "w", "f", "f", "k") if ext else ("n", "i", "s", "w", "f", "f")
            segs, _ = Q.gen_segments(rng, doc, nmax=3, kinds=kinds, filt=fg, desc_p=0.25)
            q = ["q", "^" if (ext and rng.random() < 0.15) else "$", segs]
            r = Renderer(rng, ext={"words": ext, "lg": ext, "alias_lits": ext, "bare_names": ext, "omit_root": ext})
            if ext and rng.random() < 0.25:
                rest = []
                for _ in range(rng.choice([1, 1, 2, 3])):
                    segs2, _ = Q.gen_segments(rng, doc, nmax=2, kinds=("n", "i", "s", "w"))
                    rest.append((rng.choice("|&"), ["q", "^" if rng.random() < 0.1 else "$", segs2]))
                text = r.compound(q, rest)
            else:
                text = r.query(q, top=True)
            docs = [doc] + [PANEL[i] for i in rng.sample(range(len(PANEL)), 3)]
        elif mode == "soup":
            text = c06.soup_text(rng)
            docs = [PANEL[i] for i in rng.sample(range(len(PANEL)), 4)]
        else:
            text = c06.mutate(rng, c06.valid_text(rng, ext=True))
            docs = [PANEL[i] for i in rng.sample(range(len(PANEL)), 4)]
        out, nonempty = judge(stats, text, docs, mode)
        stats.cls("%s:%s" % (mode, out))
        if out == "ok" and nonempty and interesting(text):
            stats.nt(text)
            if len(stats.samples) < 5:
                stats.sample({"query": text, "string_form": str(jsonpath.compile(text))})

    hyp_run(cases(), body, n, seed, stats)
    return stats


# ------------------------------------------------------------------ exhaustive skeletons and literals

ATOMS = [["test", ["q", "@", [["c", [["n", "a"]]]]]], ["cmp", "==", ["q", "@", [["c", [["n", "b"]]]]], ["lit", 1]],
         ["cmp", "<", ["q", "@", [["c", [["n", "c"]]]]], ["q", "$", [["c", [["n", "k"]]]]]]]
XDOCS = [[{"a": 1, "b": 1, "c": 0}, {"a": 0, "b": 2, "c": 5}, {"b": 1}, {"c": 1}, {}, {"a": None, "b": 1, "c": 9}],
         {"k": 3, "x": {"a": 1, "b": 1, "c": 1}, "y": {"b": 1, "c": 4}, "z": {"a": False}}]


def skeletons(depth):
    if depth == 0:
        return [a for a in ATOMS]
    sub = skeletons(depth - 1)
    out = list(sub)
    small = sub if len(sub) <= 12 else sub[:12]
    for e in sub:
        out.append(["not", e])
        out.append(["par", e])
    for a, b in itertools.product(small, small):
        out.append(["and", a, b])
        out.append(["or", a, b])
    return out


def t_skeletons(shard, nshards):
    stats = Stats()
    sk = skeletons(2)
    # depth 3 only through unary wrappers and a few binary partners (keeps it to a few thousand)
    extra = []
    for e in sk[::3]:
        extra += [["not", e], ["par", e], ["and", e, ATOMS[0]], ["or", ATOMS[1], e], ["and", ["not", e], ATOMS[2]]]
    allsk = sk + extra
    n = 0
    rng = random.Random(shard)
    # parenthesised expressions as comparison operands (accepted by the default environment)
    ops_ = []
    for e in sk[:40]:
        for lit in (True, False, 1):
            ops_ += [["cmp", "==", ["par", e], ["lit", lit]], ["cmp", "!=", ["lit", lit], ["par", e]], ["not", ["cmp", "==", ["par", e], ["lit", lit]]],
                     ["and", ["cmp", "==", ["par", e], ["lit", lit]], ATOMS[0]]]
    allsk = allsk + ops_
    for i, e in enumerate(allsk):
        if i % nshards != shard:
            continue
        for top in ("c", "d"):
            ast = ["q", "$", [[top, [["f", e]]]]]
            for words in (False, True):
                text = Renderer(rng if words else None, ext={"words": words}).query(ast, top=True)
                judge(stats, text, XDOCS, "skeleton")
                n += 1
        stats.nt("sk", canon(e))
    stats.subspaces.append({"name": "filter skeletons over {!, &&, ||, (), ==, <} with three atoms, depth <= 3, shard %d/%d of %d" % (shard, nshards, len(allsk)),
                            "size": n, "exhaustive": True})
    return stats


def t_literals():
    stats = Stats()
    n = 0
    nums = ["0", "-0", "1", "-1", "10", "100", "1e2", "1E+2", "1e-2", "1.5", "-1.5", "1.50", "0.1", "1e100", "1.0e100", "1e308", "5e-324",
            "2.5e-3", "123456789012", "9007199254740991", "1.0", "-0.0", "1e0", "12e1", "0.000001", "1e-7", "1e21", "1e22", "123456789.123456789",
            "5E-1", "25E-1", "1" + "0" * 320 + ".", "1" + "0" * 320 + ".5", "-1" + "0" * 320 + ".0", "1.5e999", "1.0E+400", "0." + "0" * 330 + "1", "1e-400"]
    doc = [0, 1, -1, 10, 100, 0.01, 1.5, -1.5, 0.1, 1e100, 1e308, 5e-324, 0.0025, 123456789012, 9007199254740991, 120, 1e-6, 1e-7, 1e21, 1e22]
    for num in nums:
        for tmpl in ("$[?@ == %s]", "$[?@ < %s]", "$[?%s >= @]", "$[?@ in [%s, 1]]"):
            judge(stats, tmpl % num, [doc], "literal")
            n += 1
        stats.nt("num", num)
    chars = ["a", "'", '"', "\\", "\n", "\t", "\u0001", "\u007f", "é", "😀", "/", " ", "\\n", "\\u0041", "\b", "\r", "\f", "퟿"]
    for a, b in itertools.product(chars, chars):
        name = a + b
        doc2 = {name: 1, "x": [name, "z"], "y": {"k": name}}
        for tmpl in ("$[%s]", "$..[%s]", "$[?@ == %s]", "$.x[?@ != %s]", "$[%s, 'x']", "$[?@.k == %s]", "$[?%s in @]"):
            for q in ("'", '"'):
                lit = render_string(name, q)
                judge(stats, tmpl % lit, [doc2], "string")
                n += 1
        stats.nt("str", name)
    flags = ["", "a", "i", "m", "s", "ai", "im", "ms", "ais", "aims", "smia"]
    for fl in flags:
        for pat in ("a.c", "^A", "a$", "A.C", "a\\.c", "[a-c]+", "a|b", "(?i:a)b", "(?i)ab", "(?s:.)b", "(?i:a).c", "(?m:^a)b", "(?a:\\w)b", "a(?i:b)",
                    # an escaped slash, a class holding a slash, escaped backslashes next to the closing slash (accepted or not,
                    # whatever compiles must print a text that compiles to the same thing)
                    "a\\/b", "\\/", "a[/]b", "a\\\\", "a\\\\\\/b", "[\\/]", "a\\.b\\/"):
            judge(stats, "$[?@ =~ /%s/%s]" % (pat, fl), [["abc", "ABC", "a\nc", "a.c", "b", "xabc\n", "é", "ab", "AB", "aB", "Ab", "\nb", "\nB", "éb", "éB",
                                                            "A\nC", "a\nC", "a/b", "/", "a\\", "a\\/b", "a.b/"]], "regex")
            n += 1
        stats.nt("flags", fl)
    comp = ["$.a | $.b", "$.a & $.b", "$.a | $.b | $.c", "$.a & $.b | $.c", "$.a | $.b & $.c", "^[?@.a] | $.b", "$.a | ^[0]", "$..a & $..b & $..c",
            "a | b", "$[?@.a] & $[?@.b]", "^..a | ^[?@.b == 2].b", "$.a|$.b", "$ | $"]
    for t in comp:
        judge(stats, t, [{"a": 1, "b": 1, "c": 2}, {"a": [1, 2], "b": [2, 3], "c": [2]}, [{"a": 1}, {"b": 2}]], "compound")
        stats.nt("compound", t)
        n += 1
    slices = ["$::0 2:", "$:1 :2", "$::0 1:", "$.a:1:2", "$:2", ":1:", "$1:2 0:1", "$.a::2 ::2", "$[::]", "$[1:]", "$[:1]", "$[::2]", "$[::-1]", "$[1:2:3]", "$[-1:]", "$[:]", "$[0:0:0]", "$[ 1 : 5 : 2 ]", "$..[1:]", "$[1:,2]", "$[*,~]", "$.~", "$..~"]
    for t in slices:
        judge(stats, t, [[1, 2, 3, 4, 5, 6], {"a": [1, 2, 3]}], "slice")
        stats.nt("slice", t)
        n += 1
    stats.subspaces.append({"name": "number spellings, all 2-character strings over 18 delicate characters x 7 positions x 2 quote styles, regex flag subsets, compound structures, slices",
                            "size": n, "exhaustive": True})
    return stats


DIGIT_SPELLINGS = ["0", "1", "2", "-1", "10", "\uff11", "\u0661", "\uff10", "-\uff11", "\uff11\uff10", "1\uff10", "\u0967", "\U0001d7cf"]
DIGIT_SHAPES = ["$[%s]", "$..[%s]", "$[%s, 1]", "$.x[%s]", "$[%s:]", "$[:%s]", "$[::%s]", "$[*][%s]", "$[?@[%s] == 'A']", "$.x[?@ > %s]", "$[?@[%s]]"]


def digit_doc():
    d = {}
    for i, sp in enumerate(DIGIT_SPELLINGS):
        d[sp] = "m%d" % i
    d["x"] = list(range(10, 22))
    d["o"] = dict((sp, "A" if i % 2 else "B") for i, sp in enumerate(DIGIT_SPELLINGS))
    d["l"] = [["A", "B", "C"], {"1": "A", "\uff11": "B"}]
    return d


def t_long():
    """long and deep legal queries (vf/gen/longq.py) must print, recompile, be fixed points and keep their results"""
    from ..gen import longq
    stats = Stats()
    docs = longq.long_docs()
    small = [docs[0], docs[3]["b"][:20], docs[5]]
    n = 0
    for name, e in longq.long_filters():
        r = judge(stats, Renderer(None).query(["q", "$", [["c", [["f", e]]]]], top=True), small, "long")
        stats.cls("long:" + r[0])
        stats.nt("long", name)
        n += 1
    for name, ast in longq.long_queries():
        r = judge(stats, Renderer(None).query(ast, top=True), [docs[1], docs[2], docs[3]], "long")
        stats.cls("long:" + r[0])
        stats.nt("long", name)
        n += 1
    stats.subspaces.append({"name": "148 long / deep legal queries (chains of up to 100 operands, depth up to 99, 130 selectors / segments)", "size": n, "exhaustive": True})
    return stats


def t_digits():
    """indices, slice bounds and number literals spelled with non-ASCII decimal digits (the lexer's \\d admits them)"""
    stats = Stats()
    n = 0
    doc = digit_doc()
    for sp in DIGIT_SPELLINGS:
        for shp in DIGIT_SHAPES:
            r = judge(stats, shp % sp, [doc, doc["l"], doc["x"]], "digits")
            n += 1
            stats.cls("digits:" + r[0])
        stats.nt("digits", sp)
    stats.subspaces.append({"name": "13 digit spellings (ASCII, full-width, Arabic-Indic, Devanagari, mathematical; mixed) x 11 positions", "size": n, "exhaustive": True})
    return stats


def t_floats(seed, n):
    """a float literal must survive printing exactly: compared with itself and its two neighbouring doubles"""
    import math

    from hypothesis import strategies as st2
    stats = Stats()
    special = [0.30000000000000004, 1.0000000000000002, 0.1, 1 / 3, 2 / 3, 1.7976931348623157e308, 2.2250738585072014e-308, 5e-324, 1e16, 1e15 + 0.3,
               9007199254740993.0, 1e22, 1e23, 123456.7890123456, 4.35, 0.7000000000000001, 1.1 * 1.1, 2.675, 1e-5, 1.5e-7, 100.0, 1e21]

    def body(f):
        if f != f or f in (float("inf"), float("-inf")):
            return
        stats.case()
        up, down = math.nextafter(f, math.inf), math.nextafter(f, -math.inf)
        doc = [v for v in (down, f, up) if v == v and abs(v) != float("inf")]
        for lit in {repr(f), "%.17g" % f, ("%.17e" % f)}:
            if "." not in lit and "e" not in lit:
                lit += ".0"
            for tmpl in ("$[?@ == %s]", "$[?@ < %s]", "$[?@ >= %s]"):
                r = judge(stats, tmpl % lit, [doc], "float")
                stats.cls("float:" + r[0])
        if len(repr(f).replace("-", "").replace(".", "").split("e")[0].lstrip("0")) >= 16:
            stats.nt(repr(f))
            if len(stats.samples) < 4:
                stats.sample({"literal": repr(f), "document": doc})

    for f in special + [-x for x in special]:
        body(f)
    hyp_run(st2.floats(allow_nan=False, allow_infinity=False), body, n, seed, stats)
    return stats


def render_string(s, q):
    out = []
    for ch in s:
        o = ord(ch)
        if ch == q:
            out.append("\\" + ch)
        elif ch == "\\":
            out.append("\\\\")
        elif o < 0x20:
            out.append({"\b": "\\b", "\f": "\\f", "\n": "\\n", "\r": "\\r", "\t": "\\t"}.get(ch, "\\u%04x" % o))
        else:
            out.append(ch)
    return q + "".join(out) + q


def tasks(tier, seed):
    ts = [{"name": "literals", "fn": "t_literals"}, {"name": "digits", "fn": "t_digits"}, {"name": "long", "fn": "t_long"},
          {"name": "floats", "fn": "t_floats", "kw": {"seed": mix(seed, ID, "floats"), "n": 2500 if tier == "quick" else 40000}}]
    ts += [{"name": "skeletons-%d" % k, "fn": "t_skeletons", "kw": {"shard": k, "nshards": 5}} for k in range(5)]
    n = 3000 if tier == "quick" else 50000
    for k in range(10):
        ts.append({"name": "random-%d" % k, "fn": "t_random", "kw": {"seed": mix(seed, ID, k), "n": n}})
    if tier == "thorough":
        ts.append({"name": "atheris", "fn": "t_atheris", "kw": {"seed": seed, "seconds": 240}})
    return ts


def t_atheris(seed, seconds):
    """coverage-guided campaign (thorough tier): the same oracle inside an atheris target; findings come back as failures"""
    from ..fuzz import driver
    return driver.run_campaigns(seed, seconds, plans=[("c10-text", "empty"), ("c10-text", "tests")], death_hook=False)


def replay(case):
    stats = Stats()
    docs = [case["doc"]] if "doc" in case else PANEL + XDOCS
    judge(stats, case["text"], docs, case.get("origin", "replay"))
    return stats


def shrink(case, pred):
    return c06.shrink(dict(case, kind="query"), lambda c: pred({k: v for k, v in c.items() if k != "kind"}))
