"""C09 - evaluation is pure: read-only, repeatable, unaffected by caching or interleaving."""
from __future__ import annotations

import copy
import itertools
import random
import sys
import threading

from hypothesis import strategies as st
from hypothesis.stateful import RuleBasedStateMachine, initialize, invariant, precondition, rule

from ..gen import docs as D
from ..gen import queries as Q
from ..gen.filters import FilterGen
from ..gen.render import Renderer
from ..run import Stats, hyp_run, mix, run_machine, rng_for
from ..strict import canon, container_ids, jeq, short
from . import c08

import jsonpath
from jsonpath import JSONPathEnvironment

ID = "C09"
LEVEL = "exploration"
CLAIM = True
TECHNIQUE = ("model-based stateful testing: Hypothesis rule-based state machine over compile / evaluate / open lazy iterator / "
             "advance any iterator / recompile / evaluate on another document; model = a fresh environment with caching off on a "
             "deep copy; invariants after every step (documents, contexts, string forms untouched; every iterator a prefix of "
             "its model); thread stress sample reported separately")
LEVEL_TEXT = ("Exploration of call histories: queries rich in cacheable sub-expressions ($- and _-rooted sub-queries, constant "
              "comparisons, functions of them) mixed with per-node ones (@, #), nested filters and filters under descendant "
              "segments are compiled once in an environment with filter caching on and then evaluated fully, lazily and "
              "interleaved on several documents and contexts; every result must equal what a brand-new caching-off environment "
              "gives on a deep copy, and nothing passed in may change. Generator interleavings are owned by the harness; OS "
              "thread schedules are only stress-sampled (8 threads, switch interval 1e-6 s) and reported separately.")
LEVEL_NOTE = ("Trusted: CPython, Hypothesis. The iterator-advancement rules are the systematic schedule exploration; the thread part "
              "is a stress sample, not an exploration of schedules. The caching-off fresh environment is the oracle here; C02/C13 "
              "anchor that mode to the independent reference model.")
LEVEL_TEXT += ' Also exhaustive: 16 templates x 5 renamings of the identifier tokens (key, root, current node, context), caching on vs a fresh caching-off environment of the same class, 2 repetitions x 3 documents x 2 contexts.'
BUDGET_S = {"quick": 75, "thorough": 700}
RULE = ("Histories of <= 40 steps over 3-4 query texts x 3 documents x 2 contexts per machine. Non-trivial = a history with >= 2 "
        "evaluations of one compiled object on different documents whose query has a cacheable node and a volatile node, or with "
        ">= 2 iterators of one compiled object advanced alternately; distinct by history hash.")
ASSUMPTIONS = [
    "oracle = a freshly constructed JSONPathEnvironment(filter_caching=False), freshly compiled, on deep copies",
    "thread schedules are not controlled: that part is a stress sample",
]

_MS = None
_MCOUNT = [0]

_SC = st.sampled_from([0, 1, 2, 3, "a", "b", None, True, 1.5, "aa", "a+", "(", "[a", "b*", "ab"])
_ITEM = st.fixed_dictionaries({"a": _SC, "b": _SC}, optional={"c": st.lists(_SC, max_size=3)})
SCHEMA_DOC = st.one_of(
    st.fixed_dictionaries({"a": _SC, "b": st.lists(_ITEM, min_size=2, max_size=5), "c": st.fixed_dictionaries({"a": _SC, "b": _SC})}),
    st.fixed_dictionaries({"a": _SC, "b": st.dictionaries(st.sampled_from(["a", "b", "c", "d"]), _ITEM, min_size=2, max_size=4), "c": st.lists(_SC, max_size=3)}),
    D.containers(name_st=st.sampled_from(["a", "b", "c"]), scalars=_SC, max_leaves=8),
)

TEMPLATES = [
    "$.b[?@.a == $.a]", "$.b[?@.a != $.a]", "$.b[?@.a < $.c.a || @.b == $.a]", "$..[?@.a == $.a]", "$..[?@.b == _.a]", "$.b[?@.a == _.a && @.b != $.a]",
    "$.b[?count($.b[?@.a == $.a]) > 0 && @.b]", "$.b[?@.c[?@ == $.a]]", "$.b[?# == $.a || @.a == 1]", "$.b[?$.c.a == 1 || @.a]", "$.b[?@.a in _.c || @.b == $.c.b]",
    "$.b[?length($.b) > @.a]", "$.b[?@.a == $.a].b", "$.b[?search(@.a, $.a)]", "$.b[?match(@.b, $.c.a)]", "$.b[?search(@.b, _.a) || @.a == $.a]",
    "$..[?search(@.a, $.a)]", "$.b[?!search(@.a, $.c.b)]", "$..[?@.a == $.a]..a", "$..b[?@.a == $.a]", "$..[?@.b == $.c.b && @.a]", "$..b[?@.a <= $.a][?@.b >= $.c.b]", "$.b[?@.a == $.a, ?@.b == $.a]", "$.b[?!(@.a == $.a) && @.b == _.b]",
]


def snapshot(v):
    return copy.deepcopy(v), container_ids(v)


def gen_texts(rng, docs, ctxs, k):
    out = []
    base = rng.choice(docs)
    for _ in range(k):
        r = rng.random()
        if r < 0.55:
            f = c08.rooted_filter(rng, base, ctxs[0])
        elif r < 0.8:
            fg = FilterGen(rng, base, depth=2, ext=True, ctx_data=ctxs[0])
            cands = list(base.values()) if isinstance(base, dict) else list(base)
            inner = c08.rooted_filter(rng, base, ctxs[0])
            f = ["and", fg.logical(cands, 1), ["test", ["q", "@", [["c", [["f", inner]]]]]]] if rng.random() < 0.5 else \
                ["or", ["cmp", "==", ["call", "count", [["q", "$", [["d", [["n", rng.choice("abc")]]]]]]], ["lit", rng.choice([0, 1, 2])]], inner]
        else:
            fg = FilterGen(rng, base, depth=2, ext=True, ctx_data=ctxs[0])
            f = fg.logical(list(base.values()) if isinstance(base, dict) else list(base), 2)
        seg = ["d" if rng.random() < 0.4 else "c", [["f", f]]]
        segs = [seg] + ([["c", [rng.choice([["w"], ["n", "a"], ["i", 0]])]]] if rng.random() < 0.3 else [])
        out.append(Renderer(None).query(["q", "$", segs], top=True))
    return out


def has_cache_and_volatile(path):
    try:
        sels = path.selectors
    except AttributeError:
        return False
    for s in sels:
        items = getattr(s, "items", [s])
        for it in items:
            if getattr(it, "cacheable_nodes", False):
                return True
    return False


def model_for(text, doc, ctx):
    env = JSONPathEnvironment(filter_caching=False)
    try:
        return "ok", [(tuple(m.parts), canon(m.obj)) for m in env.finditer(text, copy.deepcopy(doc), filter_context=copy.deepcopy(ctx))]
    except Exception as e:  # noqa: BLE001
        return "err", type(e).__name__


class PurityMachine(RuleBasedStateMachine):
    def __init__(self):
        super().__init__()
        self.hist = []
        self.ready = False

    @initialize(docs=st.lists(SCHEMA_DOC, min_size=3, max_size=3), seed=st.lists(st.integers(0, 255), min_size=6, max_size=6))
    def setup(self, docs, seed):
        rng = random.Random(mix(*seed))
        self.docs = docs
        self.ctxs = [{"a": rng.choice([0, 1, 2, "a"]), "b": rng.choice([0, 1, "b"]), "c": [rng.randint(0, 3)]}, {"a": 2, "b": 2, "c": []}]
        self.doc_snap = [snapshot(d) for d in docs]
        self.ctx_snap = [snapshot(c) for c in self.ctxs]
        self.env = JSONPathEnvironment(filter_caching=True)
        self.texts = []
        cand = [rng.choice(TEMPLATES) for _ in range(2)] + gen_texts(rng, docs, self.ctxs, 1)
        for t in cand:
            try:
                self.env.compile(t)
                self.texts.append(t)
            except Exception:  # noqa: BLE001 - acceptance is not this property's subject
                pass
        if not self.texts:
            self.texts = ["$[?@.a == $.a]"]
        self.compiled = {}
        self.strs = {}
        self.iters = []       # [t, d, c, iterator, produced, model]
        self.models = {}
        self.evals = {}       # t -> set of documents evaluated
        self.alternated = False
        self.last_advanced = None
        self.hist = [["setup", list(seed)]]
        self.ready = True

    # ---- helpers
    def _fail(self, sig, detail):
        _MS.fail(sig, {"docs": [s[0] for s in self.doc_snap], "ctxs": [s[0] for s in self.ctx_snap], "texts": self.texts, "history": list(self.hist)}, detail)

    def _model(self, t, d, c):
        k = (t, d, c)
        if k not in self.models:
            self.models[k] = model_for(self.texts[t], self.doc_snap[d][0], self.ctx_snap[c][0])
        return self.models[k]

    def _path(self, t):
        if t not in self.compiled:
            self.compiled[t] = self.env.compile(self.texts[t])
            self.strs[t] = str(self.compiled[t])
        return self.compiled[t]

    def _norm(self, m):
        return (tuple(m.parts), canon(m.obj))

    # ---- rules
    @precondition(lambda self: self.ready)
    @rule(t=st.integers(0, 3), d=st.integers(0, 2), c=st.integers(0, 1))
    def evaluate(self, t, d, c):
        t %= len(self.texts)
        self.hist.append(["evaluate", t, d, c])
        p = self._path(t)
        when = "first-use" if t not in self.evals else ("reuse-same-doc" if d in self.evals[t] else "after-other-document")
        want = self._model(t, d, c)
        _MS.ev()
        try:
            got = ("ok", [self._norm(m) for m in p.finditer(self.docs[d], filter_context=self.ctxs[c])])
        except Exception as e:  # noqa: BLE001
            got = ("err", type(e).__name__)
        if got != want:
            self._fail("result-differs:%s" % when, "%r on document %d/context %d (%s): compiled+cached gives %s, fresh uncached gives %s" % (
                self.texts[t], d, c, when, short(got, 200), short(want, 200)))
        self.evals.setdefault(t, set()).add(d)

    @precondition(lambda self: self.ready and len(self.iters) < 5)
    @rule(t=st.integers(0, 3), d=st.integers(0, 2), c=st.integers(0, 1))
    def open_iterator(self, t, d, c):
        t %= len(self.texts)
        self.hist.append(["open", t, d, c])
        want = self._model(t, d, c)
        if want[0] != "ok":
            return
        p = self._path(t)
        try:
            it = iter(p.finditer(self.docs[d], filter_context=self.ctxs[c]))
        except Exception as e:  # noqa: BLE001
            self._fail("iterator-open-raised:%s" % type(e).__name__, repr(e))
            return
        self.iters.append([t, d, c, it, [], want[1]])
        self.evals.setdefault(t, set()).add(d)

    @precondition(lambda self: self.ready and self.iters)
    @rule(k=st.integers(0, 7), n=st.integers(1, 2))
    def advance_again(self, k, n):
        self.advance(k, n)

    @precondition(lambda self: self.ready and self.iters)
    @rule(k=st.integers(0, 7), n=st.integers(1, 4))
    def advance(self, k, n):
        k %= len(self.iters)
        self.hist.append(["advance", k, n])
        ent = self.iters[k]
        if self.last_advanced is not None and self.last_advanced != k and self.iters[self.last_advanced][0] == ent[0]:
            self.alternated = True
        self.last_advanced = k
        for _ in range(n):
            _MS.ev()
            try:
                m = next(ent[3])
            except StopIteration:
                if len(ent[4]) != len(ent[5]):
                    self._fail("iterator-short:interleaved", "iterator %d of %r ended after %d of %d matches" % (k, self.texts[ent[0]], len(ent[4]), len(ent[5])))
                self.iters.pop(k)
                self.last_advanced = None
                return
            except Exception as e:  # noqa: BLE001
                self._fail("iterator-raised:%s" % type(e).__name__, "iterator %d of %r raised %r" % (k, self.texts[ent[0]], e))
                self.iters.pop(k)
                self.last_advanced = None
                return
            ent[4].append(self._norm(m))
            if ent[4] != ent[5][: len(ent[4])]:
                self._fail("result-differs:interleaved-iterator", "iterator %d of %r on document %d produced %s, model prefix is %s" % (
                    k, self.texts[ent[0]], ent[1], short(ent[4], 200), short(ent[5][: len(ent[4])], 200)))
                self.iters.pop(k)
                self.last_advanced = None
                return

    @precondition(lambda self: self.ready)
    @rule(t=st.integers(0, 3), d=st.integers(0, 2), c=st.integers(0, 1))
    def recompile(self, t, d, c):
        t %= len(self.texts)
        self.hist.append(["recompile", t, d, c])
        p = self._path(t)
        p2 = self.env.compile("".join(list(self.texts[t])))  # an equal text, but a different str object
        _MS.ev()
        if not (p == p2 and p2 == p):
            self._fail("recompile:not-equal", "compiling %r twice gives unequal queries" % self.texts[t])
        elif hash(p) != hash(p2):
            self._fail("recompile:hash", "equal compiled queries for %r hash differently" % self.texts[t])
        want = self._model(t, d, c)
        try:
            got = ("ok", [self._norm(m) for m in p2.finditer(self.docs[d], filter_context=self.ctxs[c])])
        except Exception as e:  # noqa: BLE001
            got = ("err", type(e).__name__)
        if got != want:
            self._fail("result-differs:recompiled", "recompiled %r on document %d gives %s, fresh uncached gives %s" % (self.texts[t], d, short(got, 160), short(want, 160)))

    # ---- invariants
    @invariant()
    def nothing_changed(self):
        if not self.ready:
            return
        _MS.ev()
        for i, (d, (snap, ids)) in enumerate(zip(self.docs, self.doc_snap)):
            if not jeq(d, snap) or container_ids(d) != ids:
                self._fail("document-modified", "document %d is now %s, was %s" % (i, short(d, 200), short(snap, 200)))
                self.doc_snap[i] = snapshot(d)
        for i, (c, (snap, ids)) in enumerate(zip(self.ctxs, self.ctx_snap)):
            if not jeq(c, snap) or container_ids(c) != ids:
                self._fail("filter-context-modified", "context %d is now %s, was %s" % (i, short(c, 200), short(snap, 200)))
                self.ctx_snap[i] = snapshot(c)
        for t, p in self.compiled.items():
            if str(p) != self.strs[t]:
                self._fail("compiled-query-changed", "str(compiled) for %r changed from %r to %r" % (self.texts[t], self.strs[t], str(p)))
                self.strs[t] = str(p)

    def teardown(self):
        if not self.ready:
            return
        multi = [t for t, ds in self.evals.items() if len(ds) >= 2 and t in self.compiled and has_cache_and_volatile(self.compiled[t])]
        if multi:
            _MS.cls("reused-on-several-documents+cacheable")
        if self.alternated:
            _MS.cls("iterators-alternated")
        if multi or self.alternated:
            _MS.nt(repr(self.hist), canon([s[0] for s in self.doc_snap]))
            if len(_MS.samples) < 4:
                _MS.sample({"texts": self.texts, "history": self.hist[:14], "documents": short([s[0] for s in self.doc_snap], 200)})


def t_machine(seed, n):
    global _MS
    _MS = Stats()
    run_machine(PurityMachine, n, 40, seed, _MS)
    _MS.generated += n
    return _MS


# ------------------------------------------------------------------ direct differential: cache on vs off, first vs hundredth use


@st.composite
def cases(draw):
    docs = draw(st.lists(SCHEMA_DOC, min_size=2, max_size=3))
    return docs, draw(st.integers(0, 2**32 - 1))


def t_differential(seed, n):
    stats = Stats()
    env_on = JSONPathEnvironment(filter_caching=True)

    def body(x):
        docs, s = x
        rng = rng_for(s)
        stats.case()
        ctxs = [{"a": rng.choice([0, 1, 2, "a"]), "b": 1, "c": [1]}]
        text = gen_texts(rng, docs, ctxs, 1)[0] if rng.random() < 0.6 else rng.choice(TEMPLATES)
        try:
            p = env_on.compile(text)
        except Exception:  # noqa: BLE001
            return
        snaps = [snapshot(d) for d in docs]
        reps = rng.choice([2, 3, 100]) if rng.random() < 0.1 else 2
        for rep in range(reps):
            for i, d in enumerate(docs):
                stats.ev()
                want = model_for(text, snaps[i][0], ctxs[0])
                try:
                    got = ("ok", [(tuple(m.parts), canon(m.obj)) for m in p.finditer(d, filter_context=ctxs[0])])
                except Exception as e:  # noqa: BLE001
                    got = ("err", type(e).__name__)
                if got != want:
                    stats.fail("result-differs:cache-on-vs-off:%s" % ("first-use" if rep == 0 and i == 0 else "later-use"),
                               {"docs": [s_[0] for s_ in snaps], "ctxs": ctxs, "texts": [text], "history": [["evaluate", 0, j, 0] for j in range(len(docs))] * (rep + 1)},
                               "%r use %d on document %d: %s vs fresh uncached %s" % (text, rep, i, short(got, 160), short(want, 160)))
                    return
                if not jeq(d, snaps[i][0]) or container_ids(d) != snaps[i][1]:
                    stats.fail("document-modified", {"docs": [s_[0] for s_ in snaps], "ctxs": ctxs, "texts": [text], "history": [["evaluate", 0, i, 0]]},
                               "evaluating %r changed document %d" % (text, i))
                    return
        # documents given as JSON text: every evaluation sees a freshly parsed value, whatever the caller did to earlier results
        if rng.random() < 0.35:
            import json as _json
            for i, sd in enumerate(snaps):
                if not isinstance(sd[0], (dict, list)):
                    continue
                jt = _json.dumps(sd[0])
                want = model_for(text, sd[0], ctxs[0])
                for rep in range(2):
                    stats.ev()
                    try:
                        ms = list(p.finditer("".join(list(jt)), filter_context=ctxs[0]))
                        got = ("ok", [(tuple(m.parts), canon(m.obj)) for m in ms])
                    except Exception as e:  # noqa: BLE001
                        ms, got = [], ("err", type(e).__name__)
                    if got != want:
                        stats.fail("result-differs:json-text:%s" % ("first-use" if rep == 0 else "after-caller-mutated-earlier-result"),
                                   {"docs": [s_[0] for s_ in snaps], "ctxs": ctxs, "texts": [text], "history": [["text-twice", i]]},
                                   "%r on the JSON text of document %d, evaluation %d: %s vs %s" % (text, i, rep + 1, short(got, 160), short(want, 160)))
                        return
                    for m in ms:
                        if isinstance(m.obj, list):
                            m.obj.append("__mutated__")
                        elif isinstance(m.obj, dict):
                            m.obj["__mutated__"] = 1
                        r_ = m.root
                        if isinstance(r_, dict):
                            r_["__mutated_root__"] = 1
                        elif isinstance(r_, list):
                            r_.append("__mutated_root__")
            stats.cls("json-text-twice")
        if has_cache_and_volatile(p):
            stats.cls("cacheable")
            stats.nt("diff", text, canon(docs))
        if reps == 100:
            stats.cls("hundred-uses")

    hyp_run(cases(), body, n, seed, stats)
    return stats


# ------------------------------------------------------------------ many abandoned lazy iterators, then the hundredth use


def t_abandon(seed, n):
    """`on the first or the hundredth use of the same compiled object`: partially consumed and dropped
    iterators (match(), one next() then discard, a broken-off loop) must not leave anything behind"""
    stats = Stats()
    env = JSONPathEnvironment(filter_caching=True)

    def body(x):
        docs, s = x
        rng = rng_for(s)
        stats.case()
        ctxs = [{"a": rng.choice([0, 1, 2, "a", "a+", "("]), "b": 1, "c": [1]}]
        text = rng.choice(TEMPLATES) if rng.random() < 0.7 else gen_texts(rng, docs, ctxs, 1)[0]
        if rng.random() < 0.5 and not text.startswith("$.."):
            text = "$.." + text[2:] if text.startswith("$.") else text
        try:
            p = env.compile(text)
        except Exception:  # noqa: BLE001
            return
        snaps = [copy.deepcopy(d) for d in docs]
        want = [model_for(text, sd, ctxs[0]) for sd in snaps]
        rounds = rng.choice([3, 10, 130])
        for r in range(rounds):
            i = r % len(docs)
            stats.ev()
            try:
                how = r % 3
                if how == 0:
                    p.match(docs[i], filter_context=ctxs[0])
                elif how == 1:
                    it = iter(p.finditer(docs[i], filter_context=ctxs[0]))
                    next(it, None)
                    del it
                else:
                    for k, _m in enumerate(p.finditer(docs[i], filter_context=ctxs[0])):
                        if k >= 1:
                            break
            except Exception as e:  # noqa: BLE001
                if want[i][0] == "ok":
                    stats.fail("result-differs:abandoned-iterators:raised:%s" % type(e).__name__,
                               {"docs": snaps, "ctxs": ctxs, "texts": [text], "history": [["abandon", rounds]]},
                               "%r raised %s: %s on partial use number %d although a fresh evaluation succeeds" % (text, type(e).__name__, e, r + 1))
                    return
        for i, d in enumerate(docs):
            try:
                got = ("ok", [(tuple(m.parts), canon(m.obj)) for m in p.finditer(d, filter_context=ctxs[0])])
            except Exception as e:  # noqa: BLE001
                got = ("err", type(e).__name__)
            if got != want[i]:
                stats.fail("result-differs:after-abandoned-iterators", {"docs": snaps, "ctxs": ctxs, "texts": [text], "history": [["abandon", rounds]]},
                           "%r after %d partially consumed evaluations gives %s, a fresh uncached evaluation gives %s" % (text, rounds, short(got, 160), short(want[i], 160)))
                return
            if not jeq(d, snaps[i]):
                stats.fail("document-modified", {"docs": snaps, "ctxs": ctxs, "texts": [text], "history": [["abandon", rounds]]}, "document %d modified" % i)
                return
        stats.cls("abandon-rounds:%d" % rounds)
        if rounds >= 100:
            stats.nt("abandon", text, canon(docs))

    hyp_run(cases(), body, n, seed, stats)
    return stats


# ------------------------------------------------------------------ threads (stress sample)


def t_threads(seed, rounds):
    stats = Stats()
    rng = random.Random(seed)
    old = sys.getswitchinterval()
    sys.setswitchinterval(1e-6)
    runs = 0
    try:
        env = JSONPathEnvironment(filter_caching=True)
        for r in range(rounds):
            docs = [{"a": i % 4, "b": [{"a": j, "b": i} for j in range(6)], "c": {"a": i}} for i in range(8)]
            ctxs = [{"a": 1, "b": 1, "c": [1]}]
            text = gen_texts(rng, docs, ctxs, 1)[0] if r % 2 else rng.choice(["$.b[?@.a == $.a]", "$..[?@.a < $.c.a]", "$.b[?@.b == $.a && @.a > _.a]", "$.b[?count($.b[?@.a > $.a]) > @.a]"])
            try:
                p = env.compile(text)
            except Exception:  # noqa: BLE001
                continue
            want = [model_for(text, d, ctxs[0]) for d in docs]
            got = [None] * len(docs)

            def work(i):
                outs = []
                for _ in range(5):
                    try:
                        outs.append(("ok", [(tuple(m.parts), canon(m.obj)) for m in p.finditer(docs[i], filter_context=ctxs[0])]))
                    except Exception as e:  # noqa: BLE001
                        outs.append(("err", type(e).__name__))
                got[i] = outs

            ths = [threading.Thread(target=work, args=(i,)) for i in range(len(docs))]
            for t in ths:
                t.start()
            for t in ths:
                t.join()
            runs += 1
            stats.ev(len(docs) * 5)
            for i in range(len(docs)):
                if any(o != want[i] for o in got[i]):
                    stats.fail("result-differs:threads", {"docs": docs, "ctxs": ctxs, "texts": [text], "history": [["threads", 8]]},
                               "%r evaluated from 8 threads: document %d gave %s, sequential fresh gives %s" % (text, i, short(got[i], 200), short(want[i], 120)))
                    break
            stats.nt("threads", text, r)
    finally:
        sys.setswitchinterval(old)
    stats.classes["thread_runs"] += runs
    return stats


def extra_evidence(total):
    return {"thread_runs": int(total.classes.get("thread_runs", 0)),
            "thread_part": "stress sample only: 8 threads x 5 evaluations per run with sys.setswitchinterval(1e-6); not an exploration of schedules"}


FRESH_QUERIES = ["$.a", "$[0]", "$..a", "$.*", "$[*]", "$", "$[?@.a]", "$[?@ == 1]", "$.a | $", "$.a | $.b", "$.a | ^[0]", "$ | $.a", "$.a & $.b", "$..* | $",
                 "$.a.b | $[0][0]", "^[0]", "^[?@.a]", "$[~]", "$.a | $[~]"]
FRESH_DOCS = [{}, [], {"a": 1}, [1], {"a": {"b": 2}, "b": 1}, [[1]], 0, None, {"a": []}, [{}]]


def fresh_round(order, apis=("findall", "finditer", "query", "match")):
    env = jsonpath.DEFAULT_ENV
    out = {}
    for qi, di in order:
        q, d = FRESH_QUERIES[qi], copy.deepcopy(FRESH_DOCS[di])
        for api in apis:
            try:
                if api == "findall":
                    r = env.findall(q, d)
                    snap = ("ok", len(r), canon(r[:50]))  # (a polluted shared list can grow without bound: never walk all of it)
                    # what the caller does with a returned list is the caller's business
                    r.append("__caller_appended__")
                    r.reverse()
                elif api == "finditer":
                    r = [m.obj for m in itertools.islice(env.finditer(q, d), 5000)]
                    snap = ("ok", len(r), canon(r[:50]))
                elif api == "query":
                    r = list(itertools.islice(env.query(q, d).values(), 5000))
                    snap = ("ok", len(r), canon(r[:50]))
                else:
                    m = env.match(q, d)
                    snap = ("ok", None if m is None else canon(m.obj))
            except Exception as e:  # noqa: BLE001
                snap = ("err", type(e).__name__)
            out[(qi, di, api)] = snap
    return out


def t_fresh():
    """every (query, document) pair evaluated in three rounds (forward, reversed, interleaved with compound queries on empty documents);
    returned lists are mutated by the caller in between: each answer must stay what it was the first time"""
    stats = Stats()
    pairs = [(qi, di) for qi in range(len(FRESH_QUERIES)) for di in range(len(FRESH_DOCS))]
    first = fresh_round(pairs)
    n = len(first)
    for rname, order in (("reversed", pairs[::-1]), ("forward-again", pairs), ("by-document", sorted(pairs, key=lambda p: (p[1], -p[0])))):
        again = fresh_round(order)
        n += len(again)
        for k, v in again.items():
            if v != first[k]:
                qi, di, api = k
                stats.fail("result-differs:later-round:%s" % api, {"origin": "fresh", "query": FRESH_QUERIES[qi], "doc": FRESH_DOCS[di], "api": api, "round": rname},
                           "%s(%r, %s) first gave %s; in the %s round, after other evaluations and after the caller changed earlier returned lists, %s" % (
                               api, FRESH_QUERIES[qi], short(FRESH_DOCS[di], 60), short(first[k], 100), rname, short(v, 100)))
    stats.ev(n)
    stats.nt("fresh", n)
    stats.subspaces.append({"name": "19 queries (incl. compound) x 10 tiny / empty documents x 4 entry points, 4 rounds in different orders, returned lists mutated by the caller",
                            "size": n, "exhaustive": True})
    return stats


CUSTOM_TEMPLATES = ["{R}[?{K} == {R}.want]", "{R}[?{K} == {C}.a]", "{R}[?{K} == 'b']", "{R}..[?{K} == {R}.want]", "{R}[?match({K}, {R}.pat)]",
                    "{R}[?{K} in {R}.keys]", "{R}[?{R}.want == {K}]", "{R}[?{S} == 2 || {K} == {R}.want]", "{R}[?{K} == {R}.want && {S} > 1]",
                    "{R}[?{C}.a == {K} || {R}.want == {K}]", "{R}.o[?{K} == {R}.want]", "{R}[?{K} != {R}.want]", "{R}[?{S}[?{K} == {R}.want]]",
                    "{R}[?{K} == {R}.want] | {R}.o[?{K} == {C}.a]", "{R}[?{R}.want == 'b']", "{R}[?{C}.a == 'c' && {S}]"]
CUSTOM_SPELLINGS = [{"K": "#", "R": "$", "S": "@", "C": "_"}, {"K": "~", "R": "$", "S": "@", "C": "_", "keys": "%k"}, {"K": "%key", "R": "$", "S": "@", "C": "_"},
                    {"K": "#", "R": "root", "S": "self", "C": "ctx"}, {"K": "KEY", "R": "$$", "S": "@@", "C": "__"}]
CUSTOM_DOCS = [{"want": "b", "a": 1, "b": 2, "c": 3, "pat": "[bc]", "keys": ["a", "c"], "o": {"a": 1, "b": 2, "c": [1]}},
               {"want": "c", "a": 2, "b": {"b": 1, "c": 2}, "c": 2, "pat": "a", "keys": [], "o": {"c": 0}},
               {"want": "want", "o": {"want": {"want": 1}}, "pat": ".*", "keys": ["want", "o"]}]


def t_custom_tokens():
    """the same purity demand in environments whose identifier tokens are renamed: a compiled query in a caching environment gives,
    on every document and on every repetition, what a brand-new caching-off environment of the same class gives"""
    stats = Stats()
    n = 0
    for sp in CUSTOM_SPELLINGS:
        attrs = {"key_token": sp["K"], "root_token": sp["R"], "self_token": sp["S"], "filter_context_token": sp["C"]}
        if "keys" in sp:
            attrs["keys_selector_token"] = sp["keys"]
        cls = type("CustomEnv", (JSONPathEnvironment,), attrs)
        env_on = cls(filter_caching=True)
        for tpl in CUSTOM_TEMPLATES:
            text = tpl.format(**sp)
            try:
                p = env_on.compile(text)
            except Exception as e:  # noqa: BLE001
                raise AssertionError("harness: %r does not compile under %r: %s" % (text, sp, e))
            for ctx in ({"a": "c"}, {"a": "b"}):
                for rep in range(2):
                    for i, d in enumerate(CUSTOM_DOCS):
                        stats.ev()
                        n += 1
                        want = [(tuple(m.parts), canon(m.obj)) for m in cls(filter_caching=False).finditer(text, copy.deepcopy(d), filter_context=copy.deepcopy(ctx))]
                        got = [(tuple(m.parts), canon(m.obj)) for m in p.finditer(d, filter_context=ctx)]
                        if got != want:
                            stats.fail("custom-tokens:cache-on-vs-off", {"text": text, "spelling": sp, "doc": d, "ctx": ctx, "origin": "custom"},
                                       "%r (tokens %r) use %d on document %d: %s with caching, %s from a fresh uncached environment" % (
                                           text, sp, rep, i, short(got, 160), short(want, 160)))
                        if want:
                            stats.nt("custom", text, i, canon(ctx))
    stats.subspaces.append({"name": "%d templates x %d token spellings x 2 contexts x 2 repetitions x %d documents, caching on vs fresh caching off" % (
        len(CUSTOM_TEMPLATES), len(CUSTOM_SPELLINGS), len(CUSTOM_DOCS)), "size": n, "exhaustive": True})
    return stats


def tasks(tier, seed):
    ts = [{"name": "fresh", "fn": "t_fresh"}, {"name": "custom-tokens", "fn": "t_custom_tokens"}, {"name": "threads", "fn": "t_threads", "kw": {"seed": mix(seed, ID, "t"), "rounds": 40 if tier == "quick" else 600}}]
    nm, nd = (150, 1200) if tier == "quick" else (2500, 20000)
    for k in range(10):
        ts.append({"name": "machine-%d" % k, "fn": "t_machine", "kw": {"seed": mix(seed, ID, "m", k), "n": nm}})
    for k in range(5):
        ts.append({"name": "differential-%d" % k, "fn": "t_differential", "kw": {"seed": mix(seed, ID, "d", k), "n": nd}})
    for k in range(3):
        ts.append({"name": "abandon-%d" % k, "fn": "t_abandon", "kw": {"seed": mix(seed, ID, "a", k), "n": 250 if tier == "quick" else 5000}})
    return ts


def replay(case):
    """re-run a recorded history (texts, documents, contexts given explicitly) without Hypothesis"""
    stats = Stats()
    if case.get("origin") == "fresh":
        st = t_fresh()
        for sig, (n, fs) in st.failures.items():
            for f in fs:
                if f["case"].get("query") == case.get("query") and f["case"].get("api") == case.get("api"):
                    stats.fail(sig, f["case"], f["detail"])
        return stats
    if case.get("origin") == "custom":
        st = t_custom_tokens()
        for sig, (n, fs) in st.failures.items():
            for f in fs:
                if f["case"].get("text") == case.get("text") and f["case"].get("spelling") == case.get("spelling"):
                    stats.fail(sig, f["case"], f["detail"])
        return stats
    docs = copy.deepcopy(case["docs"])
    ctxs = copy.deepcopy(case["ctxs"])
    texts = case["texts"]
    env = JSONPathEnvironment(filter_caching=True)
    compiled = {}
    iters = []

    def norm(m):
        return (tuple(m.parts), canon(m.obj))

    def check_docs():
        for i, d in enumerate(docs):
            if not jeq(d, case["docs"][i]):
                stats.fail("document-modified", case, "document %d modified" % i)
        for i, c in enumerate(ctxs):
            if not jeq(c, case["ctxs"][i]):
                stats.fail("filter-context-modified", case, "context %d modified" % i)

    seen = {}
    for step in case["history"]:
        op = step[0]
        stats.ev()
        if op in ("evaluate", "recompile"):
            t, d, c = step[1], step[2], step[3]
            p = compiled.setdefault(t, env.compile(texts[t]))
            if op == "recompile":
                p2 = env.compile("".join(list(texts[t])))
                if not (p == p2):
                    stats.fail("recompile:not-equal", case, "unequal")
                elif hash(p) != hash(p2):
                    stats.fail("recompile:hash", case, "hash differs")
                p = p2
            when = "recompiled" if op == "recompile" else ("first-use" if t not in seen else ("reuse-same-doc" if d in seen[t] else "after-other-document"))
            want = model_for(texts[t], case["docs"][d], case["ctxs"][c])
            try:
                got = ("ok", [norm(m) for m in p.finditer(docs[d], filter_context=ctxs[c])])
            except Exception as e:  # noqa: BLE001
                got = ("err", type(e).__name__)
            if got != want:
                stats.fail("result-differs:%s" % when, case, "%r: %s vs %s" % (texts[t], short(got, 160), short(want, 160)))
                if op == "evaluate" and when != "first-use":
                    stats.fail("result-differs:cache-on-vs-off:later-use", case, "later use differs")
            seen.setdefault(t, set()).add(d)
        elif op == "open":
            t, d, c = step[1], step[2], step[3]
            p = compiled.setdefault(t, env.compile(texts[t]))
            want = model_for(texts[t], case["docs"][d], case["ctxs"][c])
            if want[0] == "ok":
                iters.append([t, d, c, iter(p.finditer(docs[d], filter_context=ctxs[c])), [], want[1]])
        elif op == "advance" and iters:
            k, n = step[1] % len(iters), step[2]
            ent = iters[k]
            for _ in range(n):
                try:
                    ent[4].append(norm(next(ent[3])))
                except StopIteration:
                    if len(ent[4]) != len(ent[5]):
                        stats.fail("iterator-short:interleaved", case, "short")
                    iters.pop(k)
                    break
                if ent[4] != ent[5][: len(ent[4])]:
                    stats.fail("result-differs:interleaved-iterator", case, "iterator differs from model prefix")
                    iters.pop(k)
                    break
        elif op == "threads":
            return t_threads(0, 30)
        elif op == "text-twice":
            import json as _json
            p = env.compile(texts[0])
            i = step[1]
            jt = _json.dumps(case["docs"][i])
            want = model_for(texts[0], case["docs"][i], case["ctxs"][0])
            for rep in range(2):
                try:
                    ms = list(p.finditer("".join(list(jt)), filter_context=ctxs[0]))
                    got = ("ok", [norm(m) for m in ms])
                except Exception as e:  # noqa: BLE001
                    ms, got = [], ("err", type(e).__name__)
                if got != want:
                    stats.fail("result-differs:json-text:%s" % ("first-use" if rep == 0 else "after-caller-mutated-earlier-result"), case, "%s vs %s" % (short(got, 120), short(want, 120)))
                for m in ms:
                    if isinstance(m.root, dict):
                        m.root["__mutated_root__"] = 1
                    elif isinstance(m.root, list):
                        m.root.append("__mutated_root__")
        elif op == "abandon":
            p = env.compile(texts[0])
            for r in range(step[1]):
                i = r % len(docs)
                try:
                    if r % 3 == 0:
                        p.match(docs[i], filter_context=ctxs[0])
                    elif r % 3 == 1:
                        it = iter(p.finditer(docs[i], filter_context=ctxs[0])); next(it, None); del it
                    else:
                        for k, _m in enumerate(p.finditer(docs[i], filter_context=ctxs[0])):
                            if k >= 1:
                                break
                except Exception as e:  # noqa: BLE001
                    stats.fail("result-differs:abandoned-iterators:raised:%s" % type(e).__name__, case, repr(e))
                    return stats
            for i, d in enumerate(docs):
                want = model_for(texts[0], case["docs"][i], case["ctxs"][0])
                try:
                    got = ("ok", [norm(m) for m in p.finditer(d, filter_context=ctxs[0])])
                except Exception as e:  # noqa: BLE001
                    got = ("err", type(e).__name__)
                if got != want:
                    stats.fail("result-differs:after-abandoned-iterators", case, "%s vs %s" % (short(got, 120), short(want, 120)))
        check_docs()
    return stats
