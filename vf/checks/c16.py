"""C16 - Relative JSON Pointers are parsed, printed and applied per the draft."""
from __future__ import annotations

import itertools
import random

from hypothesis import strategies as st

from ..ref import relptr as RP
from ..ref import rfc6901 as P
from ..run import Stats, hyp_run, mix, rng_for
from ..strict import short

from jsonpath import JSONPointer, JSONPointerError, RelativeJSONPointer, RelativeJSONPointerError

ID = "C16"
LEVEL = "exploration"
CLAIM = True
TECHNIQUE = ("exhaustive enumeration of the quantifier's own space (base pointers of depth 0-3 x steps x offsets x suffixes) "
             "plus Hypothesis-generated extensions, against an independent model of the Relative JSON Pointer draft")
LEVEL_TEXT = ("The stated space - base pointers of depth 0-3 over 9 tokens x steps 0..depth+1 x offsets {none, +-1, +-2, +-10, "
              "+-12} x 8 suffixes - is enumerated completely through RelativeJSONPointer(text).to(base), JSONPointer.to(text) "
              "and string bases; each result must print as the reference tokens' RFC 6901 spelling (or carry the key marker), "
              "resolve on a document built to contain it, and forbidden applications must raise RelativeJSONPointerError; "
              "str(RelativeJSONPointer(text)) == text. Hypothesis extends tokens to arbitrary text and offsets to 1-6 digits.")
LEVEL_TEXT += ' Token alphabets include percent sequences and blank-edged tokens.'
BUDGET_S = {"quick": 60, "thorough": 400}
RULE = ("Exhaustive product described above, plus random bases/suffixes over arbitrary text without backslashes and multi-digit "
        "offsets. Non-trivial = steps >= 1 together with an offset or a non-empty suffix, or a forbidden application; distinct "
        "by (base, relative text). An offset applied to a final token that is not an array index is not judged (counted).")
ASSUMPTIONS = [
    "reference model transcribes draft-hha-relative-json-pointer-00 (validated on the draft's example table in preflight)",
    "no backslashes in base or suffix text",
]

TOKS = ["a", "é", "~", "/", "", "0", "1", "5", "12", "50%25", "a "]
OFFSETS = ["", "+1", "-1", "+2", "-2", "+10", "-10", "+12", "-12"]
SUFFIXES = ["", "#", "/x", "/0", "/a~1b", "/~0", "/é", "/x/0"]


def build_doc(toks):
    leaf = {"leaf": 1}
    node = leaf
    for t in reversed(toks):
        if P.is_canonical_index(t) and int(t) < 30:
            arr = [None] * (int(t) + 1)
            arr[int(t)] = node
            node = arr
        else:
            node = {t: node}
    return node, leaf


def judge(stats: Stats, base_toks, rel_text, origin):
    base_text = P.encode(base_toks)
    case = {"base": list(base_toks), "rel": rel_text, "origin": origin}
    try:
        steps, off, suf = RP.parse(rel_text)
    except ValueError:
        stats.excluded["malformed-relative-pointer"] += 1
        return "malformed"
    try:
        kind, want = RP.apply(list(base_toks), steps, off, suf)
        forbidden = False
    except RP.RelError as e:
        kind, want, forbidden = "forbidden", str(e), True
    if kind == "unjudged":
        stats.excluded["offset-on-non-index-token"] += 1
        return "unjudged"
    routes = [
        ("RelativeJSONPointer.to(JSONPointer)", lambda: RelativeJSONPointer(rel_text).to(JSONPointer(base_text))),
        ("RelativeJSONPointer.to(str)", lambda: RelativeJSONPointer(rel_text).to(base_text)),
        ("JSONPointer.to(str)", lambda: JSONPointer(base_text).to(rel_text)),
        ("JSONPointer.to(RelativeJSONPointer)", lambda: JSONPointer(base_text).to(RelativeJSONPointer(rel_text))),
        # the same base reached by other construction routes (parts are then strings, not parsed integers)
        ("from_parts(base).to", lambda: JSONPointer.from_parts(list(base_toks)).to(rel_text)),
        ("base.to('0').to", lambda: JSONPointer(base_text).to("0").to(rel_text)),
        ("RelativeJSONPointer.to(from_parts(base))", lambda: RelativeJSONPointer(rel_text).to(JSONPointer.from_parts(list(base_toks)))),
    ]
    # printing a parsed relative pointer returns its text
    stats.ev()
    try:
        printed = str(RelativeJSONPointer(rel_text))
        if printed != rel_text:
            stats.fail("print", case, "str(RelativeJSONPointer(%r)) = %r" % (rel_text, printed))
    except Exception as e:  # noqa: BLE001
        stats.fail("parse-raised:%s" % type(e).__name__, case, "RelativeJSONPointer(%r) raised %s: %s" % (rel_text, type(e).__name__, e))
        return "parse-raised"
    for name, fn in routes:
        stats.ev()
        try:
            got = fn()
            err = None
        except Exception as e:  # noqa: BLE001
            got, err = None, e
        if forbidden:
            if err is None:
                stats.fail("forbidden-accepted:%s" % want, case, "%s: %r applied to %r gave %r but the draft forbids it (%s)" % (name, rel_text, base_text, str(got), want))
            elif not isinstance(err, RelativeJSONPointerError):
                stats.fail("forbidden-wrong-error:%s:%s" % (type(err).__name__, want), case, "%s raised %s: %s; RelativeJSONPointerError expected" % (name, type(err).__name__, err))
            continue
        if err is not None:
            stats.fail("raised:%s:%s" % (type(err).__name__, kind), case, "%s: %r applied to %r raised %s: %s; the draft gives %s %r" % (
                name, rel_text, base_text, type(err).__name__, err, kind, want))
            continue
        if kind == "ptr":
            exp = P.encode(want)
            if str(got) != exp:
                stats.fail("wrong-pointer", case, "%s: %r applied to %r = %r, the draft gives %r" % (name, rel_text, base_text, str(got), exp))
                continue
            doc, leaf = build_doc(want)
            try:
                if got.resolve(doc) is not leaf:
                    stats.fail("resolves-elsewhere", case, "%s: result %r on %s does not resolve to the node at %r" % (name, str(got), short(doc, 160), want))
            except Exception as e:  # noqa: BLE001
                stats.fail("resolve-raised:%s" % type(e).__name__, case, "%s: result %r on %s: %s" % (name, str(got), short(doc, 160), e))
        else:  # key
            exp = P.encode(want[:-1] + ["#" + want[-1]])
            if str(got) != exp:
                stats.fail("wrong-key-pointer", case, "%s: %r applied to %r = %r, expected key marker %r" % (name, rel_text, base_text, str(got), exp))
                continue
            doc, leaf = build_doc(want)
            try:
                k = got.resolve(doc)
                wantk = int(want[-1]) if (P.is_canonical_index(want[-1]) and int(want[-1]) < 30) else want[-1]
                if k != wantk or type(k) is not type(wantk):
                    stats.fail("key-value", case, "%s: %r on %s resolved to %r, expected the key %r" % (name, str(got), short(doc, 160), k, wantk))
            except Exception as e:  # noqa: BLE001
                stats.fail("key-resolve-raised:%s" % type(e).__name__, case, "%s: %r on %s: %s" % (name, str(got), short(doc, 160), e))
    return "forbidden" if forbidden else kind


def nontrivial(steps, off, suf, outcome):
    return outcome == "forbidden" or (steps >= 1 and (off != "" or suf != ""))


def t_exhaustive(shard, nshards, depth=3):
    stats = Stats()
    n = 0
    bases = [()] + [(a,) for a in TOKS] + list(itertools.product(TOKS, repeat=2)) + list(itertools.product(TOKS, repeat=3))
    if depth >= 4:
        bases += list(itertools.product(TOKS, repeat=4))
    for i, base in enumerate(bases):
        if i % nshards != shard:
            continue
        for steps in range(0, len(base) + 2):
            for off in OFFSETS:
                for suf in SUFFIXES:
                    rel = "%d%s%s" % (steps, off, suf)
                    out = judge(stats, base, rel, "exhaustive")
                    n += 1
                    stats.cls("x:" + out)
                    if nontrivial(steps, off, suf, out) and out != "unjudged":
                        stats.nt("x", repr(base), rel)
    stats.subspaces.append({"name": "bases depth 0-%d over 9 tokens x steps 0..depth+1 x 9 offsets x 8 suffixes, shard %d/%d" % (depth, shard, nshards),
                            "size": n, "exhaustive": True})
    stats.sample({"base": P.encode(base), "relative": rel})
    return stats


def t_random(seed, n):
    stats = Stats()
    tok = st.one_of(st.sampled_from(TOKS + ["10", "2", "-", "#", "+1", "a%2Fb", "%7E1", " c", "%", "%zz", "1 ", "\t"]),
                    st.text(alphabet=st.characters(codec="utf-8", exclude_categories=["Cs"], exclude_characters="\\"), max_size=4))

    def body(x):
        base, stoks, s = x
        rng = rng_for(s)
        stats.case()
        steps = rng.randint(0, len(base) + 1)
        r = rng.random()
        off = "" if r < 0.35 else rng.choice("+-") + str(rng.choice([1, 2, 9, 10, 11, 99, 100, 12345, 999999]))
        suf = "#" if rng.random() < 0.25 else P.encode(stoks)
        rel = "%d%s%s" % (steps, off, suf)
        out = judge(stats, base, rel, "random")
        stats.cls("r:" + out)
        if len(off) > 2:
            stats.cls("multi-digit-offset")
        if nontrivial(steps, off, suf, out) and out not in ("unjudged", "malformed"):
            stats.nt("r", repr(base), rel)
            if len(stats.samples) < 4:
                stats.sample({"base": P.encode(base), "relative": rel, "outcome": out})

    hyp_run(st.tuples(st.lists(tok, max_size=4), st.lists(tok, max_size=3), st.integers(0, 2**32 - 1)), body, n, seed, stats)
    return stats


def t_syntax():
    """texts the draft's grammar rejects must be refused (and valid prints round-trip)"""
    stats = Stats()
    bad = ["", "-1", "01", "0+0", "0-0", "0+", "0-", "0+01", "a", "/a", "+1", "1#/a", "0##", "00", "1 #", "0x"]
    for t in bad:
        stats.ev()
        stats.nt("syntax", t)
        try:
            r = RelativeJSONPointer(t)
        except (RelativeJSONPointerError, JSONPointerError):
            continue
        except Exception as e:  # noqa: BLE001
            stats.fail("syntax:foreign:%s" % type(e).__name__, {"rel": t, "base": [], "origin": "syntax"}, repr(e))
            continue
        stats.fail("syntax:accepted", {"rel": t, "base": [], "origin": "syntax"}, "malformed relative pointer %r accepted as %r" % (t, str(r)))
    stats.subspaces.append({"name": "malformed relative pointer texts", "size": len(bad), "exhaustive": True})
    return stats


def t_long():
    """bases of 9..40 tokens with two-digit step counts, multi-digit offsets and indices"""
    stats = Stats()
    n = 0
    for length in (9, 10, 11, 12, 20, 40):
        for last in ("0", "5", "9", "10", "99", "100", "999", "a", ""):
            base = [TOKS[i % len(TOKS)] for i in range(length - 1)] + [last]
            for steps in sorted({0, 1, 2, 9, 10, 11, length - 1, length, length + 1, 99, 100}):
                for tail in ("", "#", "/x", "/0/1", "+1", "-1", "+10", "-10", "+99", "-99", "-100", "+1000", "+1#", "-5#", "+10/x", "-10/"):
                    judge(stats, base, "%d%s" % (steps, tail), "long")
                    n += 1
            stats.nt("long", length, last)
    stats.subspaces.append({"name": "bases of 9..40 tokens x 9 final tokens x step counts around 9/10, the base length and 99/100 x 16 offset / suffix forms", "size": n, "exhaustive": True})
    return stats


def tasks(tier, seed):
    ts = _tasks(tier, seed)
    ts.append({"name": "long", "fn": "t_long"})
    return ts


def _tasks(tier, seed):
    if tier == "quick":
        ts = [{"name": "exhaustive-%d" % k, "fn": "t_exhaustive", "kw": {"shard": k, "nshards": 14}} for k in range(14)]
    else:
        ts = [{"name": "exhaustive4-%d" % k, "fn": "t_exhaustive", "kw": {"shard": k, "nshards": 64, "depth": 4}} for k in range(64)]
    ts.append({"name": "syntax", "fn": "t_syntax"})
    n = 4000 if tier == "quick" else 60000
    for k in range(4):
        ts.append({"name": "random-%d" % k, "fn": "t_random", "kw": {"seed": mix(seed, ID, k), "n": n}})
    return ts


def replay(case):
    stats = Stats()
    if case.get("origin") == "syntax":
        return t_syntax()
    judge(stats, case["base"], case["rel"], case.get("origin", "replay"))
    return stats
