"""C01 - RFC 9535 segments and selectors yield exactly the specified nodelist."""
from __future__ import annotations

import itertools
import random

from hypothesis import strategies as st

from .. import lib
from ..gen import docs as D
from ..gen import queries as Q
from ..gen.render import Renderer, canonical
from ..ref import rfc9535 as ref
from ..run import Stats, hyp_run, mix, rng_for
from ..strict import canon, jtype, short

ID = "C01"
LEVEL = "exploration"
CLAIM = True
TECHNIQUE = 'property-based testing: generated (query AST, document) pairs vs an independent RFC 9535 reference evaluator; exhaustive small-scope enumeration of slices, indices and the selector x value-kind matrix'
LEVEL_TEXT = 'Exploration by generated-input search: document-guided query ASTs rendered in many RFC spellings are compared node-for-node (order, duplicates, identity) with an independent reference evaluator; slice bounds {omitted,-7..7}^3 x lengths 0..6, indices -8..8 x lengths 0..7, the selector-kind x value-kind matrix and every delicate member name are enumerated exhaustively.'
LEVEL_TEXT += " Also: text-level mutants of rendered queries, classified by an independent hand-written RFC 9535 parser; every mutant it accepts (filter-free) must compile and return the reference nodelist computed from the reference's own AST."
LEVEL_TEXT += ' Member names that differ from their Unicode normal forms / case foldings are in the delicate-name pool, and all delicate names are also queried as siblings of one object.'
BUDGET_S = {"quick": 75, "thorough": 780}
RULE = ("Document-guided ASTs over name/index/slice/wildcard selectors in child and descendant "
        "segments (1-5 segments, bracket lists of 1-5 selectors), each rendered in several RFC 9535 "
        "spellings, evaluated by the library (finditer/findall/compile().findall) and by an "
        "independent reference evaluator; ordered (parts, node) lists must agree. Non-trivial = the "
        "reference nodelist is non-empty or a selector is applied to the wrong kind of value; "
        "distinct by (canonical AST, document). Exhaustive sub-spaces: slices {omitted,-7..7}^3 x "
        "array lengths 0..6; indices -8..8 x lengths 0..7; selector kind x value kind x segment kind.")
ASSUMPTIONS = [
    "reference evaluator vf/ref/rfc9535.py transcribes RFC 9535 2.3/2.5 (validated against the RFC's own examples in preflight)",
    "renderer emits only spellings allowed by the RFC 9535 ABNF (DESIGN Appendix A.1)",
    "documented departures honoured: index selector on object = member named str(index); reserved words never spelled with descendant shorthand",
]

KNOWN_QUIRKS = ["slice-on-string"]


from ..oracle import diff_nodelists, judge_query  # noqa: E402


def judge(stats, ast, doc, text, origin):
    return judge_query(stats, ast, doc, text, origin, KNOWN_QUIRKS)


def classify(stats: Stats, ast, doc, expected, ctx, features):
    wrong_kind = False
    for seg in ast[2]:
        stats.cls("seg:" + ("descendant" if seg[0] == "d" else "child"))
        if len(seg[1]) > 1:
            stats.cls("list")
        for sel in seg[1]:
            stats.cls("sel:" + sel[0])
            if sel[0] == "s":
                st_ = sel[3]
                if st_ == 0:
                    stats.cls("slice:zero-step")
                elif st_ is not None and st_ < 0:
                    stats.cls("slice:neg-step")
                if sel[1] is None or sel[2] is None:
                    stats.cls("slice:omitted-bound")
    if "slice.on-string" in ctx.events:
        stats.cls("slice-on-string")
        wrong_kind = True
    if "index.on-object" in ctx.events:
        stats.cls("index-on-object")
    for f in features:
        stats.cls("spell:" + f)
    locs = [repr(p) for p, _ in expected]
    if len(set(locs)) != len(locs):
        stats.cls("duplicates")
    if expected:
        stats.cls("nonempty")
    else:
        stats.cls("empty")
    return bool(expected) or wrong_kind


# ------------------------------------------------------------------ random part


@st.composite
def cases(draw):
    doc = draw(D.containers(max_leaves=14) if draw(st.integers(0, 9)) else D.json_values(max_leaves=4))
    return doc, draw(st.integers(0, 2**32 - 1))


def t_random(seed, n, nspell):
    stats = Stats()

    def body(x):
        doc, s = x
        rng = rng_for(s)
        segs, _ = Q.gen_segments(rng, doc, nmax=5)
        ast = ["q", "$", segs]
        stats.case()
        feats_all = set()
        first = None
        for j in range(nspell):
            feats = set()
            text = Renderer(rng if j else None, features=feats).query(ast, top=True)
            if isinstance(doc, str):
                # a str argument is JSON text to the library: hand it over as such
                import json
                arg = json.dumps(doc)
                # reference sees the value; library parses the text into an equal value
                expected, ctx = judge_text_root(stats, ast, doc, arg, text)
            else:
                expected, ctx = judge(stats, ast, doc, text, "random")
            feats_all |= feats
            first = first or (expected, ctx)
        nt = classify(stats, ast, doc, first[0], first[1], feats_all)
        if nt:
            stats.nt(canonical(ast), canon(doc))
        if len(stats.samples) < 6 and nt:
            stats.sample({"query": text, "document": short(doc, 200), "nodes": len(first[0])})

    hyp_run(cases(), body, n, seed, stats)
    return stats


def judge_text_root(stats, ast, doc, arg, text):
    """Scalar string root: compare values only (the library loads JSON text)."""
    ctx = ref.Ctx(doc)
    expected = ref.run_query(ast, doc, ctx)
    stats.ev()
    kind, res = lib.find(text, arg)
    case = {"ast": ast, "doc": doc, "text": text, "origin": "string-root"}
    if kind == "err":
        stats.fail("reject:%s:%s" % (type(res).__name__, lib.norm_msg(res)), case, repr(res))
    elif diff_nodelists(res, expected) is not None:
        d = diff_nodelists(res, expected)
        stats.fail("mismatch:string-root:" + d[0], case, d[1])
    return expected, ctx


# ------------------------------------------------------------------ exhaustive sub-spaces

VALS = [None, -7, -6, -5, -4, -3, -2, -1, 0, 1, 2, 3, 4, 5, 6, 7]


def t_slices(length):
    stats = Stats()
    doc = [chr(97 + i) for i in range(length)]
    rng = random.Random(length)
    n = 0
    for a, b, c in itertools.product(VALS, VALS, VALS):
        ast = ["q", "$", [["c", [["s", a, b, c]]]]]
        text = Renderer(rng if n % 3 else None).query(ast, top=True)
        exp, _ = judge(stats, ast, doc, text, "slices")
        n += 1
        if exp or c == 0:
            stats.nt("slice", a, b, c, length)
    stats.cls("x:slices")
    stats.subspaces.append({"name": "slice start/stop/step in {omitted,-7..7}^3, array length %d" % length,
                            "size": n, "exhaustive": True})
    stats.sample({"query": text, "document": doc})
    return stats


def t_indices():
    stats = Stats()
    n = 0
    for length in range(0, 8):
        doc = list(range(10, 10 + length))
        for i in range(-8, 9):
            ast = ["q", "$", [["c", [["i", i]]]]]
            exp, _ = judge(stats, ast, doc, "$[%d]" % i, "indices")
            n += 1
            stats.nt("index", i, length)
    stats.subspaces.append({"name": "index -8..8 x array length 0..7", "size": n, "exhaustive": True})
    return stats


KIND_VALUES = {
    "object": [{"a": 1, "0": 2, "-1": 3}, {}],
    "array": [[5, 6, 7], []],
    "string": ["abc", "", "0"],
    "number": [0, 7, 1.5],
    "boolean": [True, False],
    "null": [None],
}
KIND_SELS = [["n", "a"], ["n", "0"], ["n", "length"], ["i", 0], ["i", -1], ["i", 1], ["s", None, None, None],
             ["s", 0, 2, None], ["s", None, None, -1], ["s", 1, None, 2], ["w"]]


def t_kinds():
    stats = Stats()
    n = 0
    rng = random.Random(7)
    for kind, vals in KIND_VALUES.items():
        for v in vals:
            for sel in KIND_SELS:
                for seg in ("c", "d"):
                    for wrap in ("obj", "arr"):
                        doc = {"k": v} if wrap == "obj" else [v]
                        first = ["n", "k"] if wrap == "obj" else ["i", 0]
                        segs = [["c", [first]], [seg, [sel]]] if seg == "c" else [[seg, [sel]]]
                        ast = ["q", "$", segs]
                        for r in (None, rng):
                            text = Renderer(r).query(ast, top=True)
                            judge(stats, ast, doc, text, "kinds")
                            n += 1
                        stats.nt("kind", kind, canon(v), canon(sel), seg, wrap)
    stats.subspaces.append({"name": "selector kind x value kind x {child,descendant} x {in object,in array}",
                            "size": n, "exhaustive": True})
    return stats


def t_names():
    """Every nasty name as a member name, selected by name, in many spellings."""
    stats = Stats()
    n = 0
    for name in D.NASTY:
        doc = {name: {"k": [1, 2]}, "other": 0}
        for segs in ([["c", [["n", name]]]], [["c", [["n", name]]], ["c", [["n", "k"]]]],
                     [["d", [["n", name]]]], [["c", [["n", name], ["n", "other"]]]],
                     [["c", [["n", name]]], ["d", [["i", 1]]]]):
            ast = ["q", "$", segs]
            rng = random.Random(n)
            for j in range(6):
                feats = set()
                text = Renderer(rng if j else None, ws=0.4, features=feats).query(ast, top=True)
                judge(stats, ast, doc, text, "names")
                for f in feats:
                    stats.cls("spell:" + f)
                n += 1
            stats.nt("name", name, canon(segs))
    # all delicate names as siblings of one object: each name must select its own member, not a look-alike
    everyone = {name: {"k": i} for i, name in enumerate(D.NASTY)}
    for name in D.NASTY:
        for segs in ([["c", [["n", name]]]], [["c", [["n", name]]], ["c", [["n", "k"]]]], [["d", [["n", name]]], ["c", [["n", "k"]]]]):
            ast = ["q", "$", segs]
            rng = random.Random(n)
            for j in range(3):
                judge(stats, ast, everyone, Renderer(rng if j else None, ws=0.2).query(ast, top=True), "names")
                n += 1
    stats.subspaces.append({"name": "each of %d delicate member names x 5 query shapes x 6 spellings; all names as siblings x 3 shapes x 3 spellings" % len(D.NASTY),
                            "size": n, "exhaustive": True})
    return stats


def t_long():
    """many selectors / segments, large indices and slices, on arrays of 1000 elements, objects of 300 members, 101-deep documents"""
    from ..gen import longq
    stats = Stats()
    n = 0
    rng = random.Random(29)
    docs = longq.long_docs()
    extra = [("wild", ["q", "$", [["c", [["w"]]]]]), ("desc-wild", ["q", "$", [["d", [["w"]]]]]), ("desc-a", ["q", "$", [["d", [["n", "a"]]]]]),
             ("a-wild", ["q", "$", [["c", [["n", "a"]]], ["c", [["w"]]]]]), ("rev", ["q", "$", [["c", [["s", None, None, -1]]]]]),
             ("b-wild-b", ["q", "$", [["c", [["n", "b"]]], ["c", [["w"]]], ["c", [["n", "b"]]]]]), ("desc-idx-64", ["q", "$", [["d", [["i", 64], ["i", 65], ["i", -1]]]]]),
             ("names-k", ["q", "$", [["c", [["n", "k%d" % i] for i in (0, 63, 64, 65, 128, 299, 300)]]]])]
    for name, ast in longq.long_queries() + extra:
        for j, doc in enumerate(docs):
            text = Renderer(rng if (j % 2) else None).query(ast, top=True)
            exp, _ = judge(stats, ast, doc, text, "long")
            n += 1
            if exp:
                stats.nt("long", name, j)
    stats.subspaces.append({"name": "72 long / large-number queries x 6 large or deep documents (1000-element array, 300-member object, depth 99)", "size": n, "exhaustive": True})
    return stats


# ------------------------------------------------------------------ interface


def tasks(tier, seed):
    ts = [{"name": "slices-len%d" % L, "fn": "t_slices", "kw": {"length": L}} for L in range(0, 7)]
    ts += [{"name": "indices", "fn": "t_indices"}, {"name": "kinds", "fn": "t_kinds"}, {"name": "names", "fn": "t_names"}, {"name": "long", "fn": "t_long"}]
    n = 1500 if tier == "quick" else 30000
    for k in range(16):
        ts.append({"name": "random-%d" % k, "fn": "t_random",
                   "kw": {"seed": mix(seed, ID, k), "n": n, "nspell": 4}})
    for k in range(4):
        ts.append({"name": "textfuzz-%d" % k, "fn": "t_textfuzz", "kw": {"seed": mix(seed, ID, "textfuzz", k), "n": 900 if tier == "quick" else 15000}})
    return ts


def t_textfuzz(seed, n):
    """mutated query text classified by the independent RFC 9535 parser + typing checker (vf.textfuzz)"""
    from .. import textfuzz
    return textfuzz.task(seed, n, 'nofilter')


def replay(case):
    stats = Stats()
    if case.get("origin") == "textfuzz":
        from .. import textfuzz
        textfuzz.replay_case(stats, case)
        return stats
    doc = case["doc"]
    if case.get("origin") == "string-root":
        import json
        judge_text_root(stats, case["ast"], doc, json.dumps(doc), case["text"])
    else:
        judge(stats, case["ast"], doc, case["text"], case.get("origin", "replay"))
    return stats


def shrink(case, pred):
    from ..run import shrink_value

    if case.get("origin") == "textfuzz":
        from .. import textfuzz
        return textfuzz.shrink_case(case, pred)

    # 1. canonical spelling if the failure survives it
    c2 = dict(case)
    c2["text"] = Renderer(None).query(case["ast"], top=True)
    if pred(c2):
        case = c2

    def p_doc(d):
        c = dict(case)
        c["doc"] = d
        return pred(c)

    case = dict(case)
    case["doc"] = shrink_value(case["doc"], p_doc, budget_s=8)

    def p_ast(a):
        c = dict(case)
        c["ast"] = a
        c["text"] = Renderer(None).query(a, top=True)
        return pred(c)

    if case["text"] == Renderer(None).query(case["ast"], top=True):
        ast = shrink_value(case["ast"], p_ast, budget_s=8)
        case["ast"] = ast
        case["text"] = Renderer(None).query(ast, top=True)
    return case
