"""C11 - all query entry points agree with one another on every input."""
from __future__ import annotations

import io
import itertools
import json
import random

from hypothesis import strategies as st

from .. import lib
from ..gen import docs as D
from ..gen import queries as Q
from ..gen.filters import FilterGen
from ..gen.render import Renderer
from ..run import Stats, hyp_run, mix, rng_for
from ..strict import canon, jeq, short

import jsonpath

ID = "C11"
LEVEL = "exploration"
CLAIM = True
TECHNIQUE = ("property-based testing of algebraic relations between entry points (library against itself): findall / finditer / "
             "match / query at module, environment and compiled-object level; parsed value vs JSON text vs file object; compound "
             "queries folded from their operands' own results; exhaustive operator strings of length <= 3")
LEVEL_TEXT = ("Exploration by generated-input search over relations the statement fixes: findall is the list of values of "
              "finditer, match is its first element or None, query(...).values() equals findall, the three API levels agree, "
              "JSON text / StringIO / BytesIO documents give the parsed document's result, and a compound query's findall, "
              "finditer, match and query equal the left-to-right fold of its operands' own findall results (union = "
              "concatenation, intersection = left restricted to values the right produced). All operator strings of length <= 3 "
              "over {|, &} x operand result lists from a 6-list universe are enumerated."
              ' The degenerate queries are also run on the JSON text / StringIO / BytesIO forms of every container document.')
LEVEL_TEXT += ' Also exhaustive: 38 segment-less, fake-root, compound and context-reading queries x 18 scalar / empty / tiny documents x 3 filter contexts through all 14 entry points; documents as padded / indented / raw non-ASCII JSON text.'
BUDGET_S = {"quick": 60, "thorough": 500}
RULE = ("Simple and compound queries (1-4 operands, any mix of | and &) x documents x {parsed value, JSON text, StringIO, BytesIO}. "
        "Non-trivial = a compound with >= 2 operators including & whose intermediate result is non-empty and differs from the "
        "final one, or a text/file form of a container document; distinct by (query, document, form).")
ASSUMPTIONS = [
    "compound-query documents contain no booleans, so the unspecified equality used for 'also produced by the right one' cannot matter",
    "text/file forms only for array/object documents (as the statement says)",
]

SCAL = st.one_of(st.none(), st.sampled_from([0, 1, 2, 3, 10, 1.5, "", "a", "b", "ab", "1"]))
SCAL_BOOL = st.one_of(st.none(), st.booleans(), st.sampled_from([0, 1, 2, 1.0, 0.0, "", "a", "1"]))


def vals_same(a, b):
    return len(a) == len(b) and all(lib.same_node(x, y) for x, y in zip(a, b))


def vals_jeq(a, b):
    return len(a) == len(b) and all(jeq(x, y) for x, y in zip(a, b))


def outcome(fn):
    try:
        return "ok", fn()
    except Exception as e:  # noqa: BLE001
        return "err", type(e).__name__


def judge_simple(stats: Stats, text, doc, ctx, origin):
    case = {"text": text, "doc": doc, "origin": origin}
    env = jsonpath.DEFAULT_ENV
    try:
        path = env.compile(text)
    except Exception:  # noqa: BLE001
        stats.excluded["compile-error"] += 1
        return None
    stats.ev()
    base = outcome(lambda: [(m.obj, m.path) for m in path.finditer(doc, filter_context=ctx)])
    # the match of a bare fake root is the wrapper list itself, made afresh by every evaluation: equal, never identical
    import re as _re
    bare_fake = any(op.strip() == "^" for op in _re.split(r"[|&]", text))
    same_vals = vals_jeq if bare_fake else vals_same
    same_one = jeq if bare_fake else lib.same_node
    routes = {
        "path.findall": lambda: path.findall(doc, filter_context=ctx),
        "env.findall": lambda: env.findall(text, doc, filter_context=ctx),
        "module.findall": lambda: jsonpath.findall(text, doc, filter_context=ctx),
        "env.finditer": lambda: [m.obj for m in env.finditer(text, doc, filter_context=ctx)],
        "module.finditer": lambda: [m.obj for m in jsonpath.finditer(text, doc, filter_context=ctx)],
        "path.query.values": lambda: list(path.query(doc, filter_context=ctx).values()),
        "env.query.values": lambda: list(env.query(text, doc, filter_context=ctx).values()),
        "module.query.values": lambda: list(jsonpath.query(text, doc, filter_context=ctx).values()),
    }
    for name, fn in routes.items():
        stats.ev()
        got = outcome(fn)
        if base[0] != got[0] or (base[0] == "err" and base[1] != got[1]):
            stats.fail("entry:%s:error-vs-result" % name.split(".")[1], case, "finditer -> %s but %s -> %s" % (short(base, 120), name, short(got, 120)))
        elif base[0] == "ok" and not same_vals([b[0] for b in base[1]], got[1]):
            stats.fail("entry:%s:values" % name.split(".")[1], case, "%s(%r) gives %s, finditer gives %s" % (name, text, short(got[1], 160), short([b[0] for b in base[1]], 160)))
    for name, fn in (("path.match", lambda: path.match(doc, filter_context=ctx)), ("env.match", lambda: env.match(text, doc, filter_context=ctx)),
                     ("module.match", lambda: jsonpath.match(text, doc, filter_context=ctx))):
        stats.ev()
        got = outcome(fn)
        if base[0] == "err":
            if got[0] != "err" or got[1] != base[1]:
                stats.fail("entry:match:error", case, "finditer raises %s, %s -> %s" % (base[1], name, short(got, 80)))
            continue
        if got[0] == "err":
            stats.fail("entry:match:raised", case, "%s raised %s" % (name, got[1]))
        elif not base[1]:
            if got[1] is not None:
                stats.fail("entry:match:not-none", case, "%s(%r) = %s for an empty result" % (name, text, got[1]))
        elif got[1] is None or not same_one(got[1].obj, base[1][0][0]) or got[1].path != base[1][0][1]:
            stats.fail("entry:match:not-first", case, "%s(%r) is %s, first of finditer is %s at %s" % (
                name, text, None if got[1] is None else (short(got[1].obj, 60), got[1].path), short(base[1][0][0], 60), base[1][0][1]))
    return base


def judge_forms(stats: Stats, text, doc, origin):
    """JSON text / file object documents give the same result as the parsed value"""
    if not isinstance(doc, (dict, list)):
        return
    env = jsonpath.DEFAULT_ENV
    case = {"text": text, "doc": doc, "origin": origin, "forms": True}
    try:
        path = env.compile(text)
    except Exception:  # noqa: BLE001
        return
    base = outcome(lambda: [(m.obj, m.path) for m in path.finditer(doc)])
    if base[0] != "ok":
        return
    blob = json.dumps(doc)
    # other serialisations of the same value: blank space around and inside (RFC 8259 allows it anywhere between tokens),
    # non-ASCII characters written raw instead of \u-escaped
    padded = " \n\t" + json.dumps(doc, indent=1) + "\r\n "
    raw = " " + json.dumps(doc, ensure_ascii=False, separators=(",", ":"))
    forms = {"text": lambda: blob, "StringIO": lambda: io.StringIO(blob), "BytesIO": lambda: io.BytesIO(blob.encode("utf-8")),
             "text-padded": lambda: padded, "text-raw": lambda: raw, "StringIO-padded": lambda: io.StringIO(padded),
             "BytesIO-raw": lambda: io.BytesIO(raw.encode("utf-8"))}
    for fname, mk in forms.items():
        for api, fn in (("findall", lambda d: path.findall(d)), ("finditer", lambda d: [m.obj for m in path.finditer(d)]),
                        ("env.findall", lambda d: env.findall(text, d)), ("match", lambda d: path.match(d)),
                        ("query", lambda d: list(path.query(d).values()))):
            stats.ev()
            got = outcome(lambda: fn(mk()))
            if got[0] == "err":
                stats.fail("form:%s:%s:raised:%s" % (fname, api.split(".")[-1], got[1]), case, "%s on the %s form of %s raised %s; the parsed value gives %d matches" % (
                    api, fname, short(doc, 140), got[1], len(base[1])))
            elif api == "match":
                want = base[1][0] if base[1] else None
                if (want is None) != (got[1] is None) or (want is not None and (not jeq(got[1].obj, want[0]) or got[1].path != want[1])):
                    stats.fail("form:%s:match" % fname, case, "match on the %s form differs" % fname)
            elif not vals_jeq(got[1], [b[0] for b in base[1]]):
                stats.fail("form:%s:%s:values" % (fname, api.split(".")[-1]), case, "%s on the %s form gives %s, parsed value gives %s" % (
                    api, fname, short(got[1], 140), short([b[0] for b in base[1]], 140)))


def fold(operand_results, ops):
    cur = list(operand_results[0])
    for op, nxt in zip(ops, operand_results[1:]):
        if op == "|":
            cur = cur + list(nxt)
        else:
            cur = [v for v in cur if any(jeq(v, w) for w in nxt)]
    return cur


def has_bool(v):
    if isinstance(v, bool):
        return True
    if isinstance(v, dict):
        return any(has_bool(x) for x in v.values())
    if isinstance(v, list):
        return any(has_bool(x) for x in v)
    return False


def judge_compound(stats: Stats, texts, ops, doc, origin, forms=False):
    """fold oracle (only for boolean-free documents, where the unspecified equality of '&' cannot matter) and,
    for every document, agreement of findall / finditer / query / match among themselves"""
    env = jsonpath.DEFAULT_ENV
    text = texts[0] + "".join(" %s %s" % (o, t) for o, t in zip(ops, texts[1:]))
    case = {"texts": texts, "ops": ops, "doc": doc, "origin": origin}
    try:
        parts = [env.compile(t).findall(doc) for t in texts]
        comp = env.compile(text)
    except Exception:  # noqa: BLE001
        stats.excluded["compile-or-operand-error"] += 1
        return None
    want = fold(parts, ops)
    if has_bool(doc):
        # which equality '&' uses between a boolean and a number is not specified: take the library's own
        # findall as the reference and require every other entry point to agree with it
        try:
            want = comp.findall(doc)
        except Exception as e:  # noqa: BLE001
            stats.fail("compound:findall:raised:%s" % type(e).__name__, case, repr(e))
            return None
        stats.cls("compound:agreement-only(booleans)")
    tag = "".join(ops)
    tagc = "%d&" % min(tag.count("&"), 2)
    routes = {
        "findall": lambda: comp.findall(doc),
        "finditer": lambda: [m.obj for m in comp.finditer(doc)],
        "query": lambda: list(comp.query(doc).values()),
        "env.findall": lambda: env.findall(text, doc),
        "module.finditer": lambda: [m.obj for m in jsonpath.finditer(text, doc)],
    }
    if forms and isinstance(doc, (dict, list)):
        blob = json.dumps(doc)
        routes["findall(text)"] = lambda: comp.findall(blob)
        routes["findall(padded text)"] = lambda: comp.findall("\n " + json.dumps(doc, indent=2) + "\n")
        routes["findall(StringIO)"] = lambda: comp.findall(io.StringIO(blob))
        routes["finditer(BytesIO)"] = lambda: [m.obj for m in comp.finditer(io.BytesIO(blob.encode()))]
        routes["query(StringIO)"] = lambda: list(comp.query(io.StringIO(blob)).values())
    for name, fn in routes.items():
        stats.ev()
        got = outcome(fn)
        if got[0] == "err":
            stats.fail("compound:%s:raised:%s" % (name, got[1]), case, "%s of %r on %s raised %s" % (name, text, short(doc, 140), got[1]))
        elif not vals_jeq(got[1], want):
            stats.fail("compound:%s:%s" % (name, tagc), case, "%s of %r on %s gives %s; folding the operands' own results gives %s" % (
                name, text, short(doc, 120), short(got[1], 140), short(want, 140)))
    stats.ev()
    got = outcome(lambda: comp.match(doc))
    if got[0] == "err":
        stats.fail("compound:match:raised:%s" % got[1], case, "match raised")
    elif (got[1] is None) != (not want) or (want and not jeq(got[1].obj, want[0])):
        stats.fail("compound:match:%s" % tagc, case, "match of %r is %s, expected first of %s" % (text, None if got[1] is None else short(got[1].obj, 60), short(want, 100)))
    return parts, want


@st.composite
def cases(draw):
    scal = SCAL_BOOL if draw(st.integers(0, 3)) == 0 else SCAL
    doc = draw(D.containers(name_st=st.sampled_from(["a", "b", "c", "d"]), scalars=scal, max_leaves=10))
    return doc, draw(st.integers(0, 2**32 - 1))


def gen_simple(rng, doc, filt_p=0.3):
    fg = FilterGen(rng, doc, depth=1)
    kinds = ("n", "i", "s", "w", "f") if rng.random() < filt_p else ("n", "i", "s", "w")
    segs, _ = Q.gen_segments(rng, doc, nmax=3, kinds=kinds, filt=fg, desc_p=0.3)
    return Renderer(None).query(["q", "$", segs], top=True)


def t_random(seed, n):
    stats = Stats()

    def body(x):
        doc, s = x
        rng = rng_for(s)
        stats.case()
        if rng.random() < 0.45:
            text = gen_simple(rng, doc)
            judge_simple(stats, text, doc, None, "simple")
            stats.cls("simple")
            if rng.random() < 0.4:
                judge_forms(stats, text, doc, "forms")
                stats.cls("forms")
                stats.nt("forms", text, canon(doc))
        else:
            k = rng.choice([2, 2, 3, 3, 4])
            texts = [rng.choice(["$..*", "$.*", "$[*]", "$..a", "$.*.*", "^[0].*", "^..*", "^[0]", "^[*][*]"]) if rng.random() < 0.5 else gen_simple(rng, doc, 0.1) for _ in range(k)]
            ops = [rng.choice("|&&") for _ in range(k - 1)]
            forms = rng.random() < 0.3
            r = judge_compound(stats, texts, ops, doc, "compound", forms=forms)
            stats.cls("compound:" + "".join(ops))
            if r:
                parts, want = r
                inter = fold(parts[:-1], ops[:-1]) if len(ops) >= 2 else None
                if len(ops) >= 2 and "&" in ops and inter and not vals_jeq(inter, want):
                    stats.nt("compound", canon(texts), canon(ops), canon(doc))
                    stats.cls("compound:nontrivial")
                    if len(stats.samples) < 4:
                        stats.sample({"query": texts[0] + "".join(" %s %s" % (o, t) for o, t in zip(ops, texts[1:])), "document": short(doc, 140), "result": short(want, 100)})
                if forms:
                    stats.nt("compound-forms", canon(texts), canon(doc))

    hyp_run(cases(), body, n, seed, stats)
    return stats


def t_operators():
    """all operator strings of length <= 3 over {|, &} x operand result lists from a small universe"""
    stats = Stats()
    doc = {"e": [], "x": [1, 2], "y": [2, 3], "z": [3, 1, 1], "w": [[1], {"k": 2}], "v": [{"k": 2}, [1], 2]}
    names = list(doc)
    n = 0
    for k in (1, 2, 3):
        for ops in itertools.product("|&", repeat=k):
            for operands in itertools.product(names, repeat=k + 1):
                texts = ["$.%s[*]" % o for o in operands]
                if n % 3 == 0:
                    # the same operands written with the fake root, in alternating positions
                    texts = [("^[0].%s[*]" % o) if (i + n // 3) % 2 else t for i, (o, t) in enumerate(zip(operands, texts))]
                judge_compound(stats, texts, list(ops), doc, "operators", forms=(n % 7 == 0))
                n += 1
            stats.nt("ops", "".join(ops))
    stats.subspaces.append({"name": "operator strings of length <= 3 over {|,&} x operands from 6 result lists (incl. empty, overlapping, containers)",
                            "size": n, "exhaustive": True})
    return stats


DEGENERATE_QUERIES = ["$", "", " $", "$ ", "^", "$.*", "$..*", "$[0]", "$[*]", "$..[0]", "$[?@]", "$[?@ > 1]", "^[?@ > 1]", "^[?@]", "^[0]", "^.*", "^..*", "^[*]",
                      "^[0][0]", "^[?@ > 1] | $", "$ | $", "$ & $", "^ | ^", "$ | ^[0]", "^[0] & $", "$.* | $", "$ | $.* | $..*", "$..* & $.*",
                      "$[?@ == _.k]", "$[?_.k]", "^[?@ == _.k]", "$[?@ == _.k] | $.a", "$.a | $[?@ == _.k]", "$[?_.k] & $[*]", "$[*] & $[?_.k]",
                      "$[?@ == _.k] | $[?@ != _.k] | $[?_.missing]", "^[?_.k == @] & ^[*]", "$..[?@ == _.k] | $"]
DEGENERATE_DOCS = [5, 1.5, 0, -1, True, False, None, [], {}, [5], [1, 5, [5]], {"a": 1}, {"a": 5, "b": [1]}, [[]], [{}], [None], [True, 1], {"k": 1}]


def t_degenerate():
    """queries with no segment at all, fake-root queries and compound queries (with and without the filter-context identifier)
    on scalar, empty and tiny documents, through every entry point"""
    stats = Stats()
    n = 0
    for text, doc, ctx in itertools.product(DEGENERATE_QUERIES, DEGENERATE_DOCS, (None, {"k": 1}, {"k": 5, "missing": None})):
        if ctx is None and "_" in text and False:
            continue
        base = judge_simple(stats, text, doc, ctx, "degenerate")
        n += 1
        if ctx is None:
            judge_forms(stats, text, doc, "degenerate")  # the same queries on the JSON text / file forms of the container documents
        if base is not None and base[0] == "ok" and base[1]:
            stats.nt("degenerate", text, canon(doc), canon(ctx))
    stats.subspaces.append({"name": "38 segment-less / fake-root / compound / context-reading queries x 18 scalar, empty and tiny documents x 3 filter contexts x 14 entry points",
                            "size": n, "exhaustive": True})
    return stats


def tasks(tier, seed):
    ts = [{"name": "operators", "fn": "t_operators"}, {"name": "degenerate", "fn": "t_degenerate"}]
    n = 1500 if tier == "quick" else 25000
    for k in range(15):
        ts.append({"name": "random-%d" % k, "fn": "t_random", "kw": {"seed": mix(seed, ID, k), "n": n}})
    return ts


def replay(case):
    stats = Stats()
    if "texts" in case:
        judge_compound(stats, case["texts"], case["ops"], case["doc"], case.get("origin", "replay"), forms=True)
    elif case.get("forms"):
        judge_forms(stats, case["text"], case["doc"], "replay")
    else:
        judge_simple(stats, case["text"], case["doc"], None, "replay")
    return stats
