"""C13 - documented non-standard syntax means what the documentation says."""
from __future__ import annotations

import copy
import itertools
import random

from hypothesis import strategies as st

from .. import lib
from ..gen import docs as D
from ..gen import queries as Q
from ..gen.filters import FilterGen
from ..gen.render import Renderer, canonical
from ..oracle import diff_nodelists, judge_query
from ..ref import rfc9535 as ref
from ..run import Stats, hyp_run, mix, rng_for
from ..strict import canon, short

import jsonpath

ID = "C13"
LEVEL = "exploration"
CLAIM = True
TECHNIQUE = ("property-based testing with two oracles: (absolute) reference evaluator extended with the documented extension "
             "semantics (docs/syntax.md); (metamorphic) each alias spelling vs its standard twin evaluated by the library; "
             "exhaustive construct x position x value-kind matrix")
LEVEL_TEXT = ("Exploration by generated-input search: extension ASTs (root omitted, bare names, keys selector, fake root, #, _ "
              "with generated context mappings at nesting depth 0-3, in/contains, =~ with every flag subset, <>, and/or/not, "
              "== undefined / != missing, nil/none/capitalised literals) placed inside lists, after descendant segments and "
              "nested in filters are compared with the extended reference model, and every alias spelling with its standard "
              "twin. Membership cases the documentation leaves undefined are excluded and counted."
              ' Also exhaustive: unquoted names built around the 17 reserved words (prefix, suffix, doubled, upper-cased) in 9 unquoted positions against the quoted spelling.')
LEVEL_TEXT += ' Also exhaustive: 28 logical templates in symbol spelling vs 7 word / alias substitutions on all 216 objects over a, b, c in {absent, false, true, 0, 1, null}.'
BUDGET_S = {"quick": 75, "thorough": 600}
RULE = ("Extension-capable FilterGen + keys selector, rendered with all alias options on. Non-trivial = the filter outcome differs "
        "between sibling candidates, or a keys selector is applied to an object with >= 1 member; distinct by (canonical query, "
        "document, context). Exhaustive: construct x position x 6 target value kinds.")
ASSUMPTIONS = [
    "extension semantics implemented from docs/syntax.md and docs/functions.md",
    "not judged: a non-string looked up in a string or among object keys, and array membership where JSON equality and Python == differ",
]

EXT = {"words": True, "lg": True, "alias_lits": True, "bare_names": True, "omit_root": True}
CTX = {"a": 1, "s": "abc", "l": [1, "a", None, [1]], "o": {"a": 1, "b": {"c": 2}}, "k": "a", "n": None, "z": 0}


def judge(stats, ast, doc, text, origin, extra=None):
    return judge_query(stats, ast, doc, text, origin, (), extra=extra, entry_points=False)


def std_twin(e):
    """rewrite == undefined / != undefined to (negated) existence tests (documented equivalence)"""
    if not isinstance(e, list) or not e:
        return e
    if e[0] == "cmp" and e[1] in ("==", "!=") and (e[2] == ["undef"] or e[3] == ["undef"]):
        q = e[3] if e[2] == ["undef"] else e[2]
        if q == ["undef"]:
            return e
        if q[0] == "q":
            t = ["test", std_twin(q)]
            return ["not", t] if e[1] == "==" else t
        return e
    return [std_twin(x) for x in e]


def has(e, kinds):
    stack = [e]
    while stack:
        x = stack.pop()
        if isinstance(x, list):
            if x and isinstance(x[0], str) and x[0] in kinds:
                return True
            stack.extend(x)
    return False


def lib_values(text, doc, extra):
    kind, res = lib.find(text, doc, filter_context=extra)
    if kind == "err":
        return "err", type(res).__name__ + ": " + str(res)
    return "ok", [(tuple(r[0]), r[1]) for r in res]


def twins(stats, ast, doc, alias_text, extra):
    """library(alias spelling) == library(standard spelling of the same AST)"""
    tw = std_twin(ast)
    if has(tw, ("undef", "key", "in", "has", "re", "list", "k")) or ast[1] == "^":
        stdable = False
    else:
        stdable = True
    r = Renderer(None, ext={"lg": False})
    try:
        std_text = r.query(tw, top=True)
    except ValueError:
        return
    stats.ev()
    a = lib_values(alias_text, doc, extra)
    b = lib_values(std_text, doc, extra)
    case = {"ast": ast, "doc": doc, "text": alias_text, "twin": std_text, "extra": extra, "origin": "twin"}
    if a[0] != b[0]:
        stats.fail("twin:error-vs-result", case, "alias %r -> %s ; standard %r -> %s" % (alias_text, short(a, 160), std_text, short(b, 160)))
    elif a[0] == "ok":
        if len(a[1]) != len(b[1]) or any(x[0] != y[0] or not lib.same_node(x[1], y[1]) for x, y in zip(a[1], b[1])):
            stats.fail("twin:different-result", case, "alias %r gives %s, its standard twin %r gives %s on %s" % (
                alias_text, short([x[0] for x in a[1]], 120), std_text, short([x[0] for x in b[1]], 120), short(doc, 160)))
    # fake root twin: ^[...] on d  ==  $[...] on [d]
    if ast[1] == "^":
        stats.ev()
        t2 = Renderer(None).query(["q", "$", ast[2]], top=True)
        if not has(ast[2], ("q",)) or True:
            c = lib_values(t2, [doc], extra)
            # `$` inside filters means the original document in the first and the wrapper in the second: only
            # compare when no filter refers to the root
            if not _uses_root(ast[2]) and a[0] == "ok" and c[0] == "ok":
                if len(a[1]) != len(c[1]) or any(x[0] != y[0] or not lib.same_node(x[1], y[1]) for x, y in zip(a[1], c[1])):
                    stats.fail("twin:fake-root", case, "%r on d gives %s, %r on [d] gives %s" % (alias_text, short([x[0] for x in a[1]], 120), t2, short([x[0] for x in c[1]], 120)))


def _uses_root(segs):
    stack = [segs]
    while stack:
        x = stack.pop()
        if isinstance(x, list):
            if len(x) == 3 and x[0] == "q" and x[1] in ("$", "^"):
                return True
            stack.extend(x)
    return False


def features_of(ast):
    out = set()
    stack = [ast]
    while stack:
        x = stack.pop()
        if isinstance(x, list) and x:
            if isinstance(x[0], str):
                if x[0] in ("key", "undef", "in", "has", "re", "list", "k"):
                    out.add("ext:" + x[0])
                if len(x) == 3 and x[0] == "q" and x[1] in ("_", "^"):
                    out.add("root:" + x[1])
                if x[0] == "list":
                    continue  # the items are scalars (possibly the strings "q", "k", ...), not AST nodes
            stack.extend(x)
    return out


@st.composite
def cases(draw):
    doc = draw(D.containers(max_leaves=12, name_st=st.one_of(st.sampled_from(D.HIT), st.sampled_from(D.HIT), st.sampled_from(D.NASTY))))
    return doc, draw(st.integers(0, 2**32 - 1))


def t_random(seed, n):
    stats = Stats()

    def body(x):
        doc, s = x
        rng = rng_for(s)
        stats.case()
        ctxd = rng.choice([CTX, CTX, {"a": [1, 2], "k": "b"}, {}])
        fg = FilterGen(rng, doc, depth=3, ext=True, ctx_data=ctxd)
        segs, _ = Q.gen_segments(rng, doc, nmax=3, kinds=("n", "i", "s", "w", "f", "f", "k"), filt=fg, desc_p=0.25)
        ast = ["q", "^" if rng.random() < 0.12 else "$", segs]
        feats = set()
        text = Renderer(rng, ext=EXT, features=feats).query(ast, top=True)
        exp, ctx = judge(stats, ast, doc, text, "random", extra=ctxd)
        twins(stats, ast, doc, text, ctxd)
        for f in features_of(ast) | {"spell:" + f for f in feats if f in ("bare-name", "root-omitted", "word-op")}:
            stats.cls(f)
        if exp is None:
            return
        kept = len(exp)
        if kept and (has(ast, ("f",)) or has(ast, ("k",))):
            stats.nt(canonical(ast), canon(doc), canon(ctxd))
            if len(stats.samples) < 5:
                stats.sample({"query": text, "document": short(doc, 140), "context": short(ctxd, 80), "nodes": kept})

    hyp_run(cases(), body, n, seed, stats)
    return stats


# ------------------------------------------------------------------ exhaustive matrix: construct x position x value kind

KINDS = {"object": {"a": 1, "b": "x", "k": {"a": 2}}, "array": [1, "x", [2], {"a": 3}], "string": "abc", "number": 1,
         "boolean": True, "null": None}
A = ["q", "@", [["c", [["n", "a"]]]]]
SELF = ["q", "@", []]
CONSTRUCTS = {
    "keys": [["k"]],
    "keys-in-list": [["k"], ["n", "a"]],
    "key-eq-name": [["f", ["cmp", "==", ["key"], ["lit", "a"]]]],
    "key-eq-index": [["f", ["cmp", "==", ["key"], ["lit", 0]]]],
    "key-lt": [["f", ["cmp", "<", ["key"], ["lit", 2]]]],
    "ctx": [["f", ["cmp", "==", SELF, ["q", "_", [["c", [["n", "a"]]]]]]]],
    "ctx-nested": [["f", ["test", ["q", "@", [["c", [["f", ["cmp", "==", SELF, ["q", "_", [["c", [["n", "o"]]], ["c", [["n", "b"]]], ["c", [["n", "c"]]]]]]]]]]]]]],
    "in-list": [["f", ["in", SELF, ["list", [1, "x", None]]]]],
    "in-ctx-array": [["f", ["in", SELF, ["q", "_", [["c", [["n", "l"]]]]]]]],
    "in-string": [["f", ["in", SELF, ["lit", "xabc"]]]],
    "in-object": [["f", ["in", ["key"], ["q", "_", [["c", [["n", "o"]]]]]]]],
    "contains": [["f", ["has", SELF, ["lit", "a"]]]],
    "contains-elem": [["f", ["has", SELF, ["lit", 2]]]],
    "regex": [["f", ["re", SELF, "a.c", ""]]],
    "regex-i": [["f", ["re", SELF, "A.C", "i"]]],
    "regex-partial": [["f", ["re", SELF, "ab", ""]]],
    "lg": [["f", ["cmp", "!=", SELF, ["lit", 1]]]],
    "undefined-eq": [["f", ["cmp", "==", A, ["undef"]]]],
    "undefined-ne": [["f", ["cmp", "!=", ["undef"], A]]],
    "words": [["f", ["or", ["and", ["test", A], ["not", ["cmp", "==", A, ["lit", 2]]]], ["cmp", "==", SELF, ["lit", None]]]]],
    "alias-lits": [["f", ["or", ["cmp", "==", SELF, ["lit", None]], ["cmp", "==", SELF, ["lit", True]]]]],
    "fake-root-in-filter": [["f", ["test", ["q", "^", [["c", [["f", ["test", ["q", "@", [["c", [["n", "t"]]]]]]]]]]]]]],
}


def t_matrix():
    stats = Stats()
    n = 0
    rng = random.Random(3)
    for (cname, sels), (vk, v) in itertools.product(CONSTRUCTS.items(), KINDS.items()):
        for pos in ("child", "in-list", "after-descendant", "nested"):
            doc = {"t": copy.deepcopy(v), "u": [copy.deepcopy(v)]}
            if pos == "child":
                segs = [["c", [["n", "t"]]], ["c", sels]]
            elif pos == "in-list":
                segs = [["c", [["n", "t"]]], ["c", sels + [["w"]]]]
            elif pos == "after-descendant":
                segs = [["d", sels]]
            else:
                segs = [["c", [["f", ["test", ["q", "@", [["c", sels]]]]]]]]
            ast = ["q", "$", segs]
            for j in range(3):
                text = Renderer(rng if j else None, ext=EXT).query(ast, top=True)
                judge(stats, ast, doc, text, "matrix", extra=CTX)
                twins(stats, ast, doc, text, CTX)
                n += 1
            stats.nt("matrix", cname, vk, pos)
    # every flag subset of =~ on subjects that need each flag (and combinations of them)
    subjects = ["abc", "ABC", "a\nc", "A\nC", "\u00e9\u00e9", "\u00c9\u00e9", "ab\nAB", "x", "ab", "a", "aa", "abcd", "", "AB"]
    for k in range(0, 5):
        for combo in itertools.combinations("aims", k):
            fl = "".join(combo)
            for pat in ("A.C", "a.c", "\\w\\w", "\u00e9\u00c9", "ab.ab", "X", "a|ab", "ab|a", "ab??", "a+?", ".*?", "(a|ab)(c|bcd)?", "x|"):
                ast = ["q", "$", [["c", [["f", ["re", SELF, pat, fl]]]]]]
                for text in (Renderer(None).query(ast, top=True), "$[?@ =~ /%s/%s]" % (pat, fl[::-1])):
                    judge(stats, ast, list(subjects), text, "regex-flags", extra=None)
                    n += 1
                stats.nt("flags", fl, pat)
    # fake root at top level
    for vk, v in KINDS.items():
        for f in (["test", SELF], ["cmp", "==", SELF, ["lit", 1]], ["cmp", ">", ["call", "length", [SELF]], ["lit", 0]], ["test", A]):
            ast = ["q", "^", [["c", [["f", f]]]]]
            if isinstance(v, str):
                continue
            text = Renderer(None).query(ast, top=True)
            judge(stats, ast, copy.deepcopy(v), text, "fake-root", extra=None)
            twins(stats, ast, copy.deepcopy(v), text, None)
            n += 1
    stats.subspaces.append({"name": "%d constructs x 6 value kinds x 4 positions x 3 spellings; fake root x value kinds" % len(CONSTRUCTS),
                            "size": n, "exhaustive": True})
    return stats


# ------------------------------------------------------------------ word operators and alias literals, token for token

WORD_TEMPLATES = [
    "!@.a", "!@.a == false", "!@.a != @.b", "!@.a < 1", "!@.a in [false, 0]", "!@.a && @.b", "!@.a || @.b", "!@.a && !@.b", "!(@.a == false)",
    "!(@.a && @.b) || @.c", "@.a == 1 && !@.b || @.c", "@.a && @.b || @.c && @.a", "@.a || @.b && @.c", "(@.a || @.b) && @.c", "!@.a == !@.b",
    "@.a == true && @.b != null", "@.a && !(@.b || @.c)", "@.a == 1 || @.b == 0 && @.c == null", "!(!@.a)", "!(@.a || !(@.b && @.c))",
    "@.a != false || !@.b && @.c == true", "!@.a == null", "@.a == null || @.b == false", "!@.a && @.b == 1 || !@.c", "@.a == !@.b",
    "!@.a != !@.b || @.c", "!@.a <= @.b", "!(@.a == true) == false",
]
WORD_SUBS = [  # (name, [(regex, replacement)...])
    ("words", [(r"&&", " and "), (r"\|\|", " or "), (r"!(?!=)", "not ")]),
    ("words-tight", [(r" && ", " and "), (r" \|\| ", " or "), (r"!(?!=)\(", "not ("), (r"!(?!=)", "not ")]),
    ("ne", [(r"!=", "<>")]),
    ("caps", [(r"\btrue\b", "True"), (r"\bfalse\b", "False"), (r"\bnull\b", "None")]),
    ("nil", [(r"\bnull\b", "nil")]),
    ("none", [(r"\bnull\b", "none")]),
    ("all", [(r"&&", " and "), (r"\|\|", " or "), (r"!=", "<>"), (r"!(?!=)", "not "), (r"\btrue\b", "True"), (r"\bnull\b", "nil")]),
]


def t_words():
    """each template in its symbol spelling and in every word / alias spelling must have the same outcome on every candidate"""
    import re as _re
    stats = Stats()
    vals = ["<absent>", False, True, 0, 1, None]
    doc = []
    for a, b, c in itertools.product(vals, repeat=3):
        o = {}
        for k, v in (("a", a), ("b", b), ("c", c)):
            if v != "<absent>" or v is False:
                if not (isinstance(v, str)):
                    o[k] = v
        doc.append(o)
    n = 0
    for tpl in WORD_TEMPLATES:
        base_text = "$[?%s]" % tpl
        a = lib_values(base_text, doc, None)
        for name, subs in WORD_SUBS:
            t2 = tpl
            for rx, rep in subs:
                t2 = _re.sub(rx, rep, t2)
            if t2 == tpl:
                continue
            text = "$[?%s]" % t2
            stats.ev()
            n += 1
            b = lib_values(text, doc, None)
            case = {"origin": "words", "symbols": base_text, "words": text}
            if a[0] != b[0]:
                stats.fail("words:error-vs-result:" + name, case, "%r -> %s ; %r -> %s" % (base_text, short(a, 160), text, short(b, 160)))
            elif a[0] == "ok" and (len(a[1]) != len(b[1]) or any(x[0] != y[0] for x, y in zip(a[1], b[1]))):
                stats.fail("words:different-result:" + name, case, "%r selects %s, %r selects %s of the 216 candidates" % (
                    base_text, short([x[0][0] for x in a[1]], 100), text, short([x[0][0] for x in b[1]], 100)))
            if a[0] == "ok" and 0 < len(a[1]) < len(doc):
                stats.nt("words", tpl, name)
    stats.subspaces.append({"name": "28 logical templates x 7 word / alias substitutions, on all 216 objects over a, b, c in {absent, false, true, 0, 1, null}",
                            "size": n, "exhaustive": True})
    return stats


def t_lists():
    """membership in list literals of 1..100 items (ints, floats, strings, mixed), both operand orders, int / float / string look-alikes"""
    stats = Stats()
    n = 0
    V = ["q", "@", [["c", [["n", "v"]]]]]
    for k in (1, 2, 5, 16, 31, 32, 33, 34, 40, 64, 65, 100):
        pools = {"ints": list(range(1, k + 1)), "floats": [i + 0.0 for i in range(1, k + 1)], "halves": [i + 0.5 for i in range(1, k + 1)],
                 "strings": [str(i) for i in range(1, k + 1)], "mixed": [[i, float(i) + 0.5, str(i), None][i % 4] for i in range(1, k + 1)]}
        doc = [{"v": 3}, {"v": 3.0}, {"v": "3"}, {"v": k}, {"v": float(k)}, {"v": k + 1}, {"v": None}, {"v": 3.5}, {"v": k + 0.5}, {"v": str(k)}, {"v": 1}, {"v": 1.0}]
        for pname, items in pools.items():
            for ast_f in (["in", V, ["list", items]], ["has", ["list", items], V], ["not", ["par", ["in", V, ["list", items]]]],
                          ["or", ["in", V, ["list", items]], ["cmp", "==", V, ["lit", None]]]):
                ast = ["q", "$", [["c", [["f", ast_f]]]]]
                try:
                    text = Renderer(None, ext=EXT).query(ast, top=True)
                except ValueError:
                    continue
                exp, _ = judge(stats, ast, doc, text, "lists", extra=None)
                twins(stats, ast, doc, text, None)
                n += 1
                if exp:
                    stats.nt("lists", k, pname, ast_f[0])
    stats.subspaces.append({"name": "list literals of 1..100 items x 5 item kinds x 4 expression shapes on 12 look-alike candidates", "size": n, "exhaustive": True})
    return stats


KEYWORDS = ["nil", "Nil", "null", "Null", "none", "None", "true", "True", "false", "False", "in", "or", "and", "not", "contains",
            "undefined", "missing"]
KEYWORD_SHAPES = [("$[%s]", "$[%s]"), ("$..[%s]", "$..[%s]"), ("%s", "$[%s]"), ("%s.x", "$[%s].x"), ("$[%s, 'a']", "$[%s, 'a']"),
                  ("$['a', %s]", "$['a', %s]"), ("$[ %s ]", "$[%s]"), ("$.l[*][%s]", "$.l[*][%s]"), ("$[%s][%s]", "$[%s][%s]")]


def t_keywords():
    """unquoted names (in brackets, and first in a query with no root identifier) that begin with, end with or repeat a reserved word of
    the extended syntax: a longer name is a name, and means what the quoted spelling means"""
    stats = Stats()
    n = 0
    names = []
    for k in KEYWORDS:
        names += [k + "x", k + "_", k + "1", "x" + k, k + k, k + "\u00e9", k.upper() + "S"]
    names += ["index", "order", "android", "notes", "Nile", "nilpotent", "Nilsson", "nullable", "nonesuch", "Trueman", "inner", "organ",
              "andy", "nothing", "container", "undefinedness", "missingno"]
    for nm in names:
        doc = {nm: {"x": 1, nm: [1]}, "a": 2, "l": [{nm: 1}, {"a": 1}, [nm]]}
        for alias, std in KEYWORD_SHAPES:
            k = alias.count("%s")
            text, twin = alias % ((nm,) * k), std % (("'%s'" % nm,) * k)
            stats.ev()
            a, b = lib_values(text, doc, None), lib_values(twin, doc, None)
            case = {"text": text, "twin": twin, "doc": doc, "origin": "keywords"}
            if b[0] != "ok" or not b[1]:
                raise AssertionError("harness: standard twin %r gives %r" % (twin, b))
            if a[0] != "ok":
                stats.fail("keyword-name:rejected:%s" % alias, case, "unquoted name in %r -> %s ; quoted twin %r selects %d nodes" % (text, short(a, 160), twin, len(b[1])))
            elif len(a[1]) != len(b[1]) or any(x[0] != y[0] or not lib.same_node(x[1], y[1]) for x, y in zip(a[1], b[1])):
                stats.fail("keyword-name:different-result:%s" % alias, case, "%r gives %s, %r gives %s" % (text, short([x[0] for x in a[1]], 120), twin, short([x[0] for x in b[1]], 120)))
            n += 1
        stats.nt("keywords", nm)
    stats.subspaces.append({"name": "%d unquoted names built around the 17 reserved words x %d unquoted positions, against the quoted spelling" % (len(names), len(KEYWORD_SHAPES)),
                            "size": n, "exhaustive": True})
    return stats


def tasks(tier, seed):
    ts = [{"name": "matrix", "fn": "t_matrix"}, {"name": "words", "fn": "t_words"}, {"name": "lists", "fn": "t_lists"}, {"name": "keywords", "fn": "t_keywords"}]
    n = 1800 if tier == "quick" else 30000
    for k in range(16):
        ts.append({"name": "random-%d" % k, "fn": "t_random", "kw": {"seed": mix(seed, ID, k), "n": n}})
    return ts


def replay(case):
    stats = Stats()
    if case.get("origin") == "words":
        doc_stats = t_words()
        for sig, (n, fs) in doc_stats.failures.items():
            for f in fs:
                if f["case"].get("words") == case.get("words"):
                    stats.fail(sig, f["case"], f["detail"])
        return stats
    if case.get("origin") == "keywords":
        a, b = lib_values(case["text"], case["doc"], None), lib_values(case["twin"], case["doc"], None)
        if a != b and not (a[0] == b[0] == "ok" and len(a[1]) == len(b[1]) and all(x[0] == y[0] and lib.same_node(x[1], y[1]) for x, y in zip(a[1], b[1]))):
            stats.fail("keyword-name", case, "%r -> %s ; %r -> %s" % (case["text"], short(a, 120), case["twin"], short(b, 120)))
        return stats
    if case.get("origin") == "twin":
        twins(stats, case["ast"], case["doc"], case["text"], case.get("extra"))
    else:
        judge(stats, case["ast"], case["doc"], case["text"], case.get("origin", "replay"), extra=case.get("extra"))
    return stats


def shrink(case, pred):
    from ..run import shrink_value

    def p_doc(d):
        c = dict(case)
        c["doc"] = d
        return pred(c)

    case = dict(case)
    case["doc"] = shrink_value(case["doc"], p_doc, budget_s=6)
    return case
