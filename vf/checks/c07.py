"""C07 - compile-time gate: valid RFC queries accepted, ill-typed or out-of-range refused."""
from __future__ import annotations

import copy
import itertools
import random
from collections.abc import Mapping

from hypothesis import strategies as st

from .. import lib
from ..gen import docs as D
from ..gen import queries as Q
from ..gen.filters import FilterGen
from ..gen.render import Renderer, canonical
from ..ref import typing9535 as T
from ..run import Stats, hyp_run, mix, rng_for
from ..strict import canon, short

import jsonpath
from jsonpath import JSONPathEnvironment, JSONPathError

ID = "C07"
LEVEL = "exploration"
CLAIM = True
TECHNIQUE = ("property-based testing with an independent implementation of the RFC 9535 typing rules as classifier: valid "
             "generated queries must compile in every spelling; single-fault injections at every syntactic position must "
             "be rejected at compile time without the document being read; exhaustive expression trees of depth <= 2; "
             "integer bounds under default and narrowed environment limits")
LEVEL_TEXT = ("Exploration by generated programs: (a) well-typed ASTs in several spellings must compile; (b) a valid AST with "
              "exactly one fault (non-singular or LogicalType operand, ValueType function as test, wrong argument count/kind, "
              "unknown function, literal not compared) placed at top level, under !, on either side of && / ||, in "
              "parentheses or inside a nested filter must raise a JSONPathError from compile() and from findall() before "
              "any read of the document (a Mapping spy); (c) all expression trees of depth <= 2 over 19 leaf forms are "
              "classified by the reference checker and compared; (d) index / slice bounds at limit-1, limit, limit+1 "
              "under default and three narrowed configurations, leading zeros, empty and comma-terminated lists."
              ' Also exhaustive: match / search with an ill-typed argument in either slot while the other slot holds each well-typed kind (literal, singular query, ValueType function) at every position; every delicate member name as a quoted selector and as a string literal must compile.')
LEVEL_TEXT += ' Also: text-level mutants of rendered queries classified by an independent hand-written RFC 9535 parser + the typing checker: well-formed and well-typed must compile; well-formed but for a listed refusal (leading-zero index, empty / comma-terminated list, out-of-range bound, uncompared literal, typing rule) must be refused at compile time.'
BUDGET_S = {"quick": 70, "thorough": 500}
RULE = ("Valid class: FilterGen ASTs (well-typed by construction and confirmed by the reference checker). Invalid class: one "
        "injected fault, confirmed to be the only violation. Non-trivial = an invalid case whose fault is not at the top "
        "level of the filter, or a valid case with >= 1 function and >= 1 connective; distinct by canonical text + "
        "configuration.")
ASSUMPTIONS = [
    "reference typing checker transcribes RFC 9535 2.4.3 (self-tested on the RFC's well-typedness examples in preflight)",
    "constructs the library documents as tolerated extensions (1., capitalised literals, $.., and/or/not) are not in the invalid class",
    "type checks enabled (well_typed=True, the default)",
]


class Spy(Mapping):
    """A document that records whether anything read it."""

    def __init__(self):
        self.reads = 0

    def __getitem__(self, k):
        self.reads += 1
        raise KeyError(k)

    def __iter__(self):
        self.reads += 1
        return iter(())

    def __len__(self):
        self.reads += 1
        return 0


def expect_valid(stats: Stats, text, env, case):
    stats.ev()
    try:
        env.compile(text)
    except JSONPathError as e:
        stats.fail("valid-rejected:%s:%s" % (type(e).__name__, lib.norm_msg(e)), case, "well-typed RFC 9535 query %r rejected: %s: %s" % (text, type(e).__name__, e))
    except Exception as e:  # noqa: BLE001
        stats.fail("valid-crashed:%s@%s" % (type(e).__name__, lib.exc_site(e)), case, "%r: %s: %s" % (text, type(e).__name__, e))


def expect_invalid(stats: Stats, text, env, case, rule):
    stats.ev()
    try:
        env.compile(text)
    except JSONPathError:
        pass
    except Exception as e:  # noqa: BLE001
        stats.fail("invalid-crashed:%s:%s" % (rule, type(e).__name__), case, "%r (%s): %s: %s" % (text, rule, type(e).__name__, e))
        return
    else:
        stats.fail("invalid-accepted:%s:%s" % (rule, case.get("position", "-")), case, "query %r breaks the rule %r but compiles" % (text, rule))
        return
    spy = Spy()
    try:
        env.findall(text, spy)
        stats.fail("invalid-evaluated:%s" % rule, case, "findall(%r) returned although compile() rejects it" % text)
    except JSONPathError:
        if spy.reads:
            stats.fail("invalid-read-document:%s" % rule, case, "findall(%r) read the document %d times before rejecting the query" % (text, spy.reads))
    except Exception as e:  # noqa: BLE001
        stats.fail("invalid-findall-crashed:%s:%s" % (rule, type(e).__name__), case, "%r: %s" % (text, e))


# ------------------------------------------------------------------ faults

A = ["q", "@", [["c", [["n", "a"]]]]]
B = ["q", "@", [["c", [["n", "b"]]]]]
NONSING = [["q", "@", [["c", [["w"]]]]], ["q", "@", [["d", [["n", "a"]]]]], ["q", "@", [["c", [["i", 0], ["i", 1]]]]],
           ["q", "@", [["c", [["s", 0, 2, None]]]]], ["q", "$", [["c", [["w"]]]]], ["q", "@", [["c", [["f", ["test", A]]]]]],
           ["q", "@", [["c", [["n", "a"], ["n", "b"]]]]]]

# (rule, slot kind, faulty node)
FAULTS = []
for ns in NONSING:
    FAULTS.append((T.R_NONSINGULAR_CMP, "cmp", ns))
FAULTS += [
    (T.R_LOGICAL_FN_CMP, "cmp", ["call", "match", [A, ["lit", "a"]]]),
    (T.R_LOGICAL_FN_CMP, "cmp", ["call", "search", [A, ["lit", "a"]]]),
    (T.R_VALUE_FN_TEST, "log", ["call", "length", [A]]),
    (T.R_VALUE_FN_TEST, "log", ["call", "count", [NONSING[0]]]),
    (T.R_VALUE_FN_TEST, "log", ["call", "value", [A]]),
    (T.R_ARITY, "log", ["call", "match", [A]]),
    (T.R_ARITY, "log", ["call", "search", [A, ["lit", "a"], ["lit", "b"]]]),
    (T.R_ARITY, "cmp", ["call", "length", []]),
    (T.R_ARITY, "cmp", ["call", "length", [A, B]]),
    (T.R_ARITY, "cmp", ["call", "count", []]),
    (T.R_ARITY, "cmp", ["call", "value", [A, B]]),
    (T.R_ARG_KIND, "cmp", ["call", "length", [NONSING[0]]]),
    (T.R_ARG_KIND, "cmp", ["call", "length", [NONSING[1]]]),
    (T.R_ARG_KIND, "cmp", ["call", "count", [["lit", 1]]]),
    (T.R_ARG_KIND, "cmp", ["call", "value", [["lit", "a"]]]),
    (T.R_ARG_KIND, "cmp", ["call", "count", [["call", "length", [A]]]]),
    (T.R_ARG_KIND, "cmp", ["call", "length", [["call", "match", [A, ["lit", "a"]]]]]),
    (T.R_ARG_KIND, "log", ["call", "match", [NONSING[0], ["lit", "a"]]]),
    (T.R_ARG_KIND, "log", ["call", "search", [A, NONSING[2]]]),
    (T.R_ARG_KIND, "cmp", ["call", "length", [["par", ["test", A]]]]),
    (T.R_ARG_KIND, "cmp", ["call", "count", [["par", ["test", NONSING[0]]]]]),
    (T.R_ARG_KIND, "cmp", ["call", "value", [["par", ["test", A]]]]),
    (T.R_ARG_KIND, "log", ["call", "match", [["par", ["test", A]], ["lit", "x"]]]),
    (T.R_ARG_KIND, "cmp", ["call", "length", [["call", "value", [["par", ["test", A]]]]]]),
    (T.R_ARG_KIND, "cmp", ["call", "length", [["not", ["test", A]]]]),
    (T.R_ARG_KIND, "cmp", ["call", "length", [["cmp", "==", A, ["lit", 1]]]]),
    (T.R_ARG_KIND, "cmp", ["call", "count", [["and", ["test", A], ["test", B]]]]),
    (T.R_UNKNOWN_FN, "log", ["call", "foo", [A]]),
    (T.R_UNKNOWN_FN, "cmp", ["call", "bar", [A]]),
    (T.R_LITERAL_TEST, "log", ["lit", True]),
    (T.R_LITERAL_TEST, "log", ["lit", 1]),
    (T.R_LITERAL_TEST, "log", ["lit", "a"]),
    (T.R_LITERAL_TEST, "log", ["lit", None]),
]

# two-parameter functions: an ill-typed argument in either slot while the other slot holds every well-typed kind
# (a literal, a singular query, a ValueType function) - the checker must look at every argument, whatever precedes it
_GOOD_ARGS = [["lit", "abc"], ["lit", 1], A, ["call", "value", [NONSING[0]]], ["call", "length", [A]]]
_BAD_ARGS = [NONSING[0], NONSING[1], ["call", "match", [A, ["lit", "a"]]], ["par", ["test", A]],
             ["cmp", "==", A, ["lit", "x"]], ["not", ["test", A]]]
for _fn in ("match", "search"):
    for _good in _GOOD_ARGS:
        for _bad in _BAD_ARGS:
            FAULTS.append((T.R_ARG_KIND, "log", ["call", _fn, [_good, _bad]]))
            FAULTS.append((T.R_ARG_KIND, "log", ["call", _fn, [_bad, _good]]))

POSITIONS = ["top", "not", "and-left", "and-right", "or-left", "or-right", "paren", "not-paren", "nested-filter",
             "count-of-filter", "and-in-or", "paren-in-and"]


def place(fault_expr, position, sibling):
    """put a faulty *logical* expression at a syntactic position of a filter"""
    f, s = fault_expr, sibling
    return {
        "top": f,
        "not": ["not", f],
        "and-left": ["and", f, s],
        "and-right": ["and", s, f],
        "or-left": ["or", f, s],
        "or-right": ["or", s, f],
        "paren": ["par", f],
        "not-paren": ["not", ["par", f]],
        "nested-filter": ["test", ["q", "@", [["c", [["f", f]]]]]],
        "count-of-filter": ["cmp", ">", ["call", "count", [["q", "@", [["c", [["f", f]]]]]]], ["lit", 0]],
        "and-in-or": ["or", s, ["and", s, f]],
        "paren-in-and": ["and", ["par", ["or", f, s]], s],
    }[position]


def faulty_logical(rule, kind, node, rng):
    if kind == "log":
        return node
    other = rng.choice([["lit", 1], ["lit", "a"], A, ["call", "length", [B]]])
    op = rng.choice(["==", "!=", "<", "<=", ">", ">="])
    return ["cmp", op, node, other] if rng.random() < 0.5 else ["cmp", op, other, node]


SIBLINGS = [["test", B], ["cmp", "==", B, ["lit", 1]], ["call", "match", [B, ["lit", "x"]]],
            ["cmp", ">", ["call", "length", [B]], ["lit", 2]], ["not", ["test", B]]]


def t_faults():
    """every fault x every position (exhaustive over the two tables), several spellings"""
    stats = Stats()
    env = jsonpath.DEFAULT_ENV
    rng = random.Random(11)
    n = 0
    for (rule, kind, node), pos in itertools.product(FAULTS, POSITIONS):
        for sib in SIBLINGS[:3]:
            e = place(faulty_logical(rule, kind, node, rng), pos, sib)
            got = T.check_filter(e)
            if got != [rule]:
                raise AssertionError("harness: injected fault %r at %s gives %r" % (rule, pos, got))
            for seg in ("c", "d"):
                ast = ["q", "$", [[seg, [["f", e]]]]]
                for r in (None, rng):
                    text = Renderer(r).query(ast, top=True)
                    expect_invalid(stats, text, env, {"text": text, "rule": rule, "position": pos, "expect": "invalid"}, rule)
                    n += 1
            stats.nt("fault", rule, canon(node), pos, canon(sib))
            stats.cls("pos:" + pos)
            stats.cls("rule:" + rule)
    stats.subspaces.append({"name": "%d faults x %d positions x 3 siblings x {child,descendant} x 2 spellings" % (len(FAULTS), len(POSITIONS)),
                            "size": n, "exhaustive": True})
    stats.sample({"query": text, "rule": rule, "position": pos})
    return stats


# ------------------------------------------------------------------ exhaustive trees of depth <= 2

LEAVES = [
    ["lit", 1], ["lit", "a"], ["lit", True], ["lit", None],
    A, ["q", "$", [["c", [["n", "a"]]], ["c", [["i", 0]]]]], NONSING[0], NONSING[1],
    ["call", "length", [A]], ["call", "count", [NONSING[0]]], ["call", "value", [A]],
    ["call", "match", [A, ["lit", "a"]]], ["call", "search", [A, ["lit", "a"]]],
    ["call", "length", [NONSING[0]]], ["call", "count", [["lit", 1]]], ["call", "match", [NONSING[0], ["lit", "a"]]],
    ["call", "value", [["lit", 1]]], ["call", "length", [A, ["lit", 1]]], ["call", "foo", [A]],
]


def comparable_form(leaf):
    return leaf[0] in ("lit", "q", "call")


def depth1():
    out = []
    for x in LEAVES:
        t = ["test", x] if x[0] == "q" else x  # a query used as a test; lit/call stand for themselves
        out.append(t)
        out.append(["not", t])
        out.append(["par", t])
    for x, y in itertools.product(LEAVES, LEAVES):
        out.append(["cmp", "==", x, y])
        out.append(["cmp", "<", x, y])
    return out


def classify_and_check(stats, e, env, origin):
    try:
        rules = T.check_filter(e)
    except ValueError:
        return None
    ast = ["q", "$", [["c", [["f", e]]]]]
    text = Renderer(None).query(ast, top=True)
    case = {"text": text, "origin": origin, "expect": "valid" if not rules else "invalid", "rule": ",".join(sorted(set(rules)))}
    if not rules:
        expect_valid(stats, text, env, case)
    else:
        expect_invalid(stats, text, env, case, sorted(set(rules))[0] if len(set(rules)) == 1 else "several")
    return rules


def t_trees(shard, nshards):
    stats = Stats()
    env = jsonpath.DEFAULT_ENV
    d1 = depth1()
    partners = [["test", B], ["cmp", "==", B, ["lit", 1]], ["call", "match", [B, ["lit", "x"]]], ["lit", True],
                ["call", "length", [B]], ["cmp", "==", NONSING[0], ["lit", 1]]]
    n = 0
    trees = []
    for e in d1:
        trees.append(e)
        trees.append(["not", e] if e[0] != "not" else ["not", ["par", e]])
        trees.append(["par", e])
        for p in partners:
            trees.append(["and", e, p])
            trees.append(["and", p, e])
            trees.append(["or", e, p])
            trees.append(["or", p, e])
    for i, e in enumerate(trees):
        if i % nshards != shard:
            continue
        rules = classify_and_check(stats, e, env, "trees")
        if rules is None:
            continue
        n += 1
        stats.cls("tree:valid" if not rules else "tree:invalid")
        stats.nt("tree", canon(e))
    stats.subspaces.append({"name": "expression trees of depth <= 2 over %d leaf forms, shard %d/%d of %d trees" % (len(LEAVES), shard, nshards, len(trees)),
                            "size": n, "exhaustive": True})
    return stats


# ------------------------------------------------------------------ integer ranges, leading zeros, list shape


def make_env(lo, hi):
    class E(JSONPathEnvironment):
        min_int_index = lo
        max_int_index = hi
    return E()


CONFIGS = [("default", -(2**53) + 1, 2**53 - 1), ("pm100", -100, 100), ("pm1", -1, 1), ("asym", -5, 3),
           # limits whose decimal spellings differ in length, either way round; one-sided and zero-width ranges
           ("lo-longer", -1000, 100), ("lo-longer-1", -10, 9), ("hi-longer", -9, 10), ("hi-longer-3", -7, 12345), ("nonneg", 0, 50),
           ("nonpos", -50, 0), ("zero", 0, 0), ("pow10", -100000, 99999)]


def t_ranges():
    stats = Stats()
    n = 0
    for name, lo, hi in CONFIGS:
        env = jsonpath.DEFAULT_ENV if name == "default" else make_env(lo, hi)
        for v in (lo - 1, lo, lo + 1, hi - 1, hi, hi + 1, 0):
            inside = lo <= v <= hi
            one = 1 if lo <= 1 <= hi else 0  # the constant step next to the probed bound must itself be in range
            shapes = ["$[%d]" % v, "$.a[%d]" % v, "$..[%d]" % v, "$[0,%d]" % v, "$[%d:]" % v, "$[:%d]" % v, "$[::%d]" % v,
                      "$[0:%d:%d]" % (v, one), "$[?@[%d]]" % v, "$[?@.a[%d] == 1]" % v, "$[?$[%d:]]" % v, "$[?count(@[::%d]) > 1]" % v,
                      "$[ %d ]" % v, "$['a',%d]" % v]
            for text in shapes:
                case = {"text": text, "config": name, "expect": "valid" if inside else "invalid", "rule": "integer-range"}
                if inside:
                    expect_valid(stats, text, env, case)
                else:
                    expect_invalid(stats, text, env, case, "integer-range")
                n += 1
                stats.nt("range", name, text)
        stats.cls("config:" + name)
    for text in ["$[01]", "$[-01]", "$[00]", "$[007]", "$.a[01]", "$..[01]", "$[0,01]", "$[01,0]", "$[?@[01]]", "$[?@.a[00] == 1]",
                 "$[ 01 ]", "$['a',01]", "$[-001]"]:
        expect_invalid(stats, text, jsonpath.DEFAULT_ENV, {"text": text, "expect": "invalid", "rule": "leading-zero"}, "leading-zero")
        stats.nt("lz", text)
        n += 1
    for text in ["$[]", "$['a',]", "$[1,]", "$[,]", "$[,1]", "$..[]", "$.a[]", "$[?@.a,]", "$[?@[]]", "$[?@['a',]]", "$[ ]", "$[*,]",
                 "$[1:2,]", "$[?@.a == 1,]", "$[1,,2]"]:
        expect_invalid(stats, text, jsonpath.DEFAULT_ENV, {"text": text, "expect": "invalid", "rule": "list-shape"}, "list-shape")
        stats.nt("shape", text)
        n += 1
    stats.subspaces.append({"name": "index/slice bounds at limit-1, limit, limit+1 x 14 shapes x %d configurations; leading zeros; list shapes" % len(CONFIGS),
                            "size": n, "exhaustive": True})
    return stats


# ------------------------------------------------------------------ random: valid ASTs in every spelling, faults in random contexts


@st.composite
def cases(draw):
    return draw(D.containers(max_leaves=10)), draw(st.integers(0, 2**32 - 1))


def count_nodes(e, kinds):
    n = 0
    stack = [e]
    while stack:
        x = stack.pop()
        if isinstance(x, list):
            if x and x[0] in kinds:
                n += 1
            stack.extend(x)
    return n


def t_random(seed, n):
    stats = Stats()
    env = jsonpath.DEFAULT_ENV

    def body(x):
        doc, s = x
        rng = rng_for(s)
        stats.case()
        fg = FilterGen(rng, doc, depth=3)
        e = fg.logical(list(doc.values()) if isinstance(doc, dict) else list(doc), 3)
        if T.check_filter(e):
            raise AssertionError("harness: generator produced an ill-typed filter %r" % (e,))
        ast = ["q", "$", [[rng.choice("cd"), [["f", e]]]]]
        for j in range(3):
            text = Renderer(rng if j else None).query(ast, top=True)
            expect_valid(stats, text, env, {"text": text, "expect": "valid", "origin": "random"})
        if count_nodes(e, ("call",)) and count_nodes(e, ("and", "or", "not")):
            stats.nt("valid", canonical(ast))
            stats.cls("valid:fn+connective")
        # one fault inside a random valid context
        rule, kind, node = rng.choice(FAULTS)
        f = faulty_logical(rule, kind, node, rng)
        ctx = f
        depth = rng.randint(0, 3)
        path = []
        for _ in range(depth):
            pos = rng.choice(POSITIONS[1:])
            sib = fg.logical(list(doc.values()) if isinstance(doc, dict) else list(doc), 1)
            ctx = place(ctx, pos, sib)
            path.append(pos)
        if T.check_filter(ctx) != [rule]:
            raise AssertionError("harness: fault context %r" % (ctx,))
        ast2 = ["q", "$", [["c", [["f", ctx]]]]]
        text2 = Renderer(rng).query(ast2, top=True)
        expect_invalid(stats, text2, env, {"text": text2, "expect": "invalid", "rule": rule, "position": "/".join(path) or "top", "origin": "random"}, rule)
        if depth:
            stats.nt("invalid", canonical(ast2))
        stats.cls("fault-depth:%d" % depth)
        if len(stats.samples) < 4 and depth >= 2:
            stats.sample({"query": text2, "rule": rule, "position": "/".join(path)})

    hyp_run(cases(), body, n, seed, stats)
    return stats


def tasks(tier, seed):
    ts = [{"name": "faults", "fn": "t_faults"}, {"name": "ranges", "fn": "t_ranges"}, {"name": "long", "fn": "t_long"}, {"name": "names", "fn": "t_names"}]
    ts += [{"name": "trees-%d" % k, "fn": "t_trees", "kw": {"shard": k, "nshards": 8}} for k in range(8)]
    n = 2500 if tier == "quick" else 40000
    for k in range(6):
        ts.append({"name": "random-%d" % k, "fn": "t_random", "kw": {"seed": mix(seed, ID, k), "n": n}})
    if tier == "thorough":
        ts.append({"name": "atheris", "fn": "t_atheris", "kw": {"seed": seed, "seconds": 300}})
    for k in range(4):
        ts.append({"name": "textfuzz-%d" % k, "fn": "t_textfuzz", "kw": {"seed": mix(seed, ID, "textfuzz", k), "n": 1200 if tier == "quick" else 20000}})
    return ts


def t_names():
    """every delicate member name as a quoted name selector (both quote styles, child and descendant segment, inside a list) and as
    a string literal compared in a filter: all are well-formed RFC 9535 queries and must compile"""
    from ..gen.docs import NASTY
    stats = Stats()
    rng = random.Random(23)
    n = 0
    for name in NASTY:
        asts = [["q", "$", [["c", [["n", name]]]]], ["q", "$", [["d", [["n", name]]]]], ["q", "$", [["c", [["n", "a"], ["n", name]]]]],
                ["q", "$", [["c", [["f", ["cmp", "==", ["q", "@", [["c", [["n", name]]]]], ["lit", name]]]]]]],
                ["q", "$", [["c", [["f", ["call", "match", [["q", "@", []], ["lit", "a"]]]]]], ["c", [["n", name]]]]]]
        for ast in asts:
            for j in range(3):
                text = Renderer(rng if j else None).query(ast, top=True)
                expect_valid(stats, text, jsonpath.DEFAULT_ENV, {"text": text, "expect": "valid", "origin": "names", "name": name})
                n += 1
        stats.nt("names", name)
    stats.subspaces.append({"name": "%d delicate member names x 5 query shapes x 3 spellings: must compile" % len(NASTY), "size": n, "exhaustive": True})
    return stats


def t_long():
    """long and deep but legal queries (chains of up to 100 operands, depth up to 99, 130 selectors / segments): must compile"""
    from ..gen import longq
    stats = Stats()
    rng = random.Random(17)
    n = 0
    for name, e in longq.long_filters():
        ast = ["q", "$", [["c", [["f", e]]]]]
        if T.check_top_query(ast):
            raise AssertionError("harness: long filter %s is not well-typed" % name)
        for j in range(3):
            text = Renderer(rng if j else None).query(ast, top=True)
            expect_valid(stats, text, jsonpath.DEFAULT_ENV, {"text": text, "expect": "valid", "origin": "long", "name": name})
            n += 1
        stats.nt("long", name)
    for name, ast in longq.long_queries():
        for j in range(2):
            text = Renderer(rng if j else None).query(ast, top=True)
            expect_valid(stats, text, jsonpath.DEFAULT_ENV, {"text": text, "expect": "valid", "origin": "long", "name": name})
            n += 1
        stats.nt("long", name)
    stats.subspaces.append({"name": "legal queries at sizes 8..100 (operand chains, parenthesis / negation / nested-filter depth) and 10..130 (selectors, segments), "
                                    "large indices and slices, 2-3 spellings each", "size": n, "exhaustive": True})
    return stats


def t_atheris(seed, seconds):
    """coverage-guided campaign (thorough tier): raw text judged by the independent parser / typing checker / evaluator"""
    from ..fuzz import driver
    return driver.run_campaigns(seed, seconds, plans=[("rfc-text", "empty"), ("rfc-text", "tests")], death_hook=False)


def t_textfuzz(seed, n):
    """mutated query text classified by the independent RFC 9535 parser + typing checker (vf.textfuzz)"""
    from .. import textfuzz
    return textfuzz.task(seed, n, 'gate')


def replay(case):
    stats = Stats()
    if case.get("origin") == "textfuzz":
        from .. import textfuzz
        textfuzz.replay_case(stats, case)
        return stats
    env = jsonpath.DEFAULT_ENV
    for name, lo, hi in CONFIGS:
        if case.get("config") == name and name != "default":
            env = make_env(lo, hi)
    if case.get("expect") == "valid":
        expect_valid(stats, case["text"], env, case)
    else:
        expect_invalid(stats, case["text"], env, case, case.get("rule", "?"))
    return stats


def shrink(case, pred):
    if case.get("origin") == "textfuzz":
        from .. import textfuzz
        return textfuzz.shrink_case(case, pred)
    return case
