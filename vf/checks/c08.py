"""C08 - the async API returns exactly what the sync API returns."""
from __future__ import annotations

import asyncio
import itertools
import random
from collections.abc import Mapping, Sequence

from hypothesis import strategies as st

from .. import lib
from ..gen import docs as D
from ..gen import queries as Q
from ..gen.filters import FilterGen
from ..gen.render import Renderer
from ..run import Stats, hyp_run, mix, rng_for
from ..strict import canon, jeq, short

import jsonpath

ID = "C08"
LEVEL = "exploration"
CLAIM = True
TECHNIQUE = ("differential property-based testing: sync vs async entry points (environment, JSONPath, CompoundJSONPath; "
             "findall_async and finditer_async) on generated standard+extension queries x documents, plain and wrapped in "
             "Mapping/Sequence classes with an async item getter; several evaluations gathered on one event loop with a "
             "seeded yield schedule; exhaustive selector-kind x value-kind matrix")
LEVEL_TEXT = ("Exploration by generated-input search with the library's sync mode as oracle (C01/C02/C13 tie the sync mode to "
              "independent models): for every generated query/document the async entry points must return the same values "
              "(identity for containers), paths and parts in the same order, or raise the same error class; the same with "
              "async item getters that yield to the event loop, and for 4 evaluations gathered concurrently on one loop."
              ' Each context template is also placed in every operand position of | and & compound queries.')
LEVEL_TEXT += ' Also: 24 uses of the filter-context identifier (bare, rooted, nested, as function argument) x 6 contexts (none, empty, populated) x {child, descendant} x {plain, async-getter}, exhaustive.'
LEVEL_TEXT += ' Also exhaustive: 20 queries whose nested filters refer to the root / fake root / filter context from two or three levels down x 3 documents x 2 contexts x {plain, async-getter}.'
BUDGET_S = {"quick": 75, "thorough": 600}
RULE = ("Queries from the standard and extension generators (simple and compound, with filter context) over documents in "
        "which strings and scalars are reachable by wildcard, slice, descendant and filter selectors. Non-trivial = non-empty "
        "result or an error, on a document where a non-name selector reaches a string or scalar; distinct by (query, "
        "document, variant). Exhaustive: selector kind x value kind x {child, after descendant}.")
ASSUMPTIONS = [
    "the async item getter returns the same items as __getitem__ (the statement's precondition)",
    "the gathered-task schedule is driven by a seeded number of sleep(0) yields per item access: deterministic, owned by the harness; no real threads or timers",
]

CTX = {"a": 1, "s": "abc", "l": [1, "a", None], "o": {"a": 1}, "k": "a"}


class AMap(Mapping):
    def __init__(self, d, sched):
        self._d = {k: wrap(v, sched) for k, v in d.items()}
        self._s = sched

    def __getitem__(self, k):
        return self._d[k]

    def __iter__(self):
        return iter(self._d)

    def __len__(self):
        return len(self._d)

    async def __getitem_async__(self, k):
        for _ in range(self._s()):
            await asyncio.sleep(0)
        return self._d[k]


class ASeq(Sequence):
    def __init__(self, xs, sched):
        self._l = [wrap(v, sched) for v in xs]
        self._s = sched

    def __getitem__(self, i):
        return self._l[i]

    def __len__(self):
        return len(self._l)

    async def __getitem_async__(self, i):
        for _ in range(self._s()):
            await asyncio.sleep(0)
        return self._l[i]


def wrap(v, sched):
    if isinstance(v, dict):
        return AMap(v, sched)
    if isinstance(v, list):
        return ASeq(v, sched)
    return v


def unwrap(v):
    if isinstance(v, AMap):
        return {k: unwrap(x) for k, x in v._d.items()}
    if isinstance(v, ASeq):
        return [unwrap(x) for x in v._l]
    return v


def same(a, b):
    if isinstance(a, (dict, list, AMap, ASeq)) or isinstance(b, (dict, list, AMap, ASeq)):
        return a is b
    return type(a) is type(b) and (a == b)


def norm(ms):
    return [(m.obj, m.path, tuple(m.parts)) for m in ms]


def sync_outcome(path, doc, ctx):
    try:
        return "ok", norm(list(path.finditer(doc, filter_context=ctx)))
    except Exception as e:  # noqa: BLE001
        return "err", type(e).__name__


def sync_values(path, doc, ctx):
    """the synchronous counterpart of findall_async"""
    try:
        return "ok", [(v, None, None) for v in path.findall(doc, filter_context=ctx)]
    except Exception as e:  # noqa: BLE001
        return "err", type(e).__name__


async def async_outcomes(env, text, path, doc, ctx):
    out = {}
    try:
        out["path.finditer_async"] = ("ok", norm([m async for m in await path.finditer_async(doc, filter_context=ctx)]))
    except Exception as e:  # noqa: BLE001
        out["path.finditer_async"] = ("err", type(e).__name__)
    try:
        out["path.findall_async"] = ("vals", await path.findall_async(doc, filter_context=ctx))
    except Exception as e:  # noqa: BLE001
        out["path.findall_async"] = ("err", type(e).__name__)
    try:
        out["env.finditer_async"] = ("ok", norm([m async for m in await env.finditer_async(text, doc, filter_context=ctx)]))
    except Exception as e:  # noqa: BLE001
        out["env.finditer_async"] = ("err", type(e).__name__)
    try:
        out["env.findall_async"] = ("vals", await env.findall_async(text, doc, filter_context=ctx))
    except Exception as e:  # noqa: BLE001
        out["env.findall_async"] = ("err", type(e).__name__)
    return out


def compare(stats, case, api, want, got, tag):
    if want[0] == "err" or got[0] == "err":
        if want[0] != got[0]:
            stats.fail("async-differs:%s:error-vs-result:%s" % (api.split(".")[1], tag), case,
                       "%s: sync gives %s, async gives %s" % (api, short(want, 200), short(got, 200)))
        elif want[1] != got[1]:
            stats.fail("async-differs:%s:error-kind:%s" % (api.split(".")[1], tag), case, "%s: sync raises %s, async raises %s" % (api, want[1], got[1]))
        return
    if got[0] == "vals":
        wv = [w[0] for w in want[1]]
        if len(wv) != len(got[1]) or not all(same(a, b) for a, b in zip(wv, got[1])):
            stats.fail("async-differs:%s:values:%s" % (api.split(".")[1], tag), case, "%s: sync values %s, async values %s" % (api, short(wv, 200), short(got[1], 200)))
        return
    if len(want[1]) != len(got[1]):
        stats.fail("async-differs:%s:length:%s" % (api.split(".")[1], tag), case, "%s: sync %d matches %s, async %d matches %s" % (
            api, len(want[1]), short([w[1] for w in want[1]], 160), len(got[1]), short([g[1] for g in got[1]], 160)))
        return
    for w, g in zip(want[1], got[1]):
        if not same(w[0], g[0]) or w[1] != g[1] or w[2] != g[2]:
            stats.fail("async-differs:%s:match:%s" % (api.split(".")[1], tag), case, "%s: sync match %s at %s, async match %s at %s" % (
                api, short(w[0], 80), w[1], short(g[0], 80), g[1]))
            return


def sel_tag(text):
    return "compound" if (" | " in text or " & " in text) else "simple"


def judge(stats: Stats, loop, text, doc, ctx, variant, rng, env=None):
    env = env or jsonpath.DEFAULT_ENV
    case = {"text": text, "doc": doc, "ctx": ctx, "variant": variant}
    try:
        path = env.compile(text)
    except Exception:  # noqa: BLE001  compile is shared by sync and async; not this property's subject
        stats.excluded["compile-error"] += 1
        return None
    tag = sel_tag(text)
    if variant == "plain":
        target = doc
    else:
        seq = [rng.randint(0, 2) for _ in range(64)]
        it = itertools.cycle(seq)
        target = wrap(doc, lambda: next(it))
    want = sync_outcome(path, target, ctx)
    want_vals = sync_values(path, target, ctx)
    stats.ev()
    got = loop.run_until_complete(async_outcomes(env, text, path, target, ctx))
    for api, g in got.items():
        compare(stats, case, api, want_vals if api.endswith("findall_async") else want, g, tag + ":" + variant)
    return want


def judge_gathered(stats: Stats, loop, items, rng):
    """several evaluations awaited concurrently on one loop: each equals its solo sync result"""
    env = jsonpath.DEFAULT_ENV
    prepared = []
    for text, doc, ctx in items:
        try:
            path = env.compile(text)
        except Exception:  # noqa: BLE001
            continue
        seq = [rng.randint(0, 3) for _ in range(64)]
        it = itertools.cycle(seq)
        target = wrap(doc, lambda it=it: next(it))
        prepared.append((text, doc, ctx, path, target, sync_outcome(path, target, ctx)))
    if len(prepared) < 2:
        return

    async def one(path, target, ctx):
        try:
            return "ok", norm([m async for m in await path.finditer_async(target, filter_context=ctx)])
        except Exception as e:  # noqa: BLE001
            return "err", type(e).__name__

    async def all_():
        return await asyncio.gather(*[one(p[3], p[4], p[2]) for p in prepared])

    stats.ev()
    res = loop.run_until_complete(all_())
    for p, g in zip(prepared, res):
        case = {"text": p[0], "doc": p[1], "ctx": p[2], "variant": "gathered", "others": [q[0] for q in prepared]}
        compare(stats, case, "path.finditer_async", p[5], g, "gathered")
    stats.cls("gathered:%d" % len(prepared))


# ------------------------------------------------------------------ generation


def gen_text(rng, doc):
    ext = rng.random() < 0.5
    fg = FilterGen(rng, doc, depth=2, ext=ext, ctx_data=CTX)
    kinds = ("n", "i", "s", "w", "f", "k") if ext else ("n", "i", "s", "w", "f")
    segs, _ = Q.gen_segments(rng, doc, nmax=3, kinds=kinds, filt=fg, desc_p=0.3)
    q = ["q", "^" if (ext and rng.random() < 0.1) else "$", segs]
    r = Renderer(rng if rng.random() < 0.5 else None, ext={"words": ext, "lg": ext, "alias_lits": ext})
    if rng.random() < 0.2:
        rest = []
        for _ in range(rng.choice([1, 1, 2])):
            segs2, _ = Q.gen_segments(rng, doc, nmax=2, kinds=("n", "i", "s", "w"))
            rest.append((rng.choice("|&"), ["q", "$", segs2]))
        return r.compound(q, rest)
    return r.query(q, top=True)


SCAL = st.one_of(st.none(), st.booleans(), st.sampled_from([0, 1, 2, 1.5, "", "a", "ab", "abc", "xyz"]))


@st.composite
def cases(draw):
    names = st.one_of(st.sampled_from(["a", "b", "c", "0", "1"]), st.sampled_from(["a", "b", "c", "0", "1"]),
                      st.sampled_from(["a'b", "a\\b", "\u0001", "q\"", "\n", "\u00e9", "'", "\\", "-1", "~", "/"]))
    doc = draw(D.containers(name_st=names, scalars=SCAL, max_leaves=10))
    return doc, draw(st.integers(0, 2**32 - 1))


def reaches_scalar(doc):
    return True  # documents here always hold strings/scalars below containers


def t_random(seed, n):
    stats = Stats()
    loop = asyncio.new_event_loop()
    pending = []

    def body(x):
        doc, s = x
        rng = rng_for(s)
        stats.case()
        text = gen_text(rng, doc)
        ctx = rng.choice([CTX, CTX, CTX, {}, None]) if "_" in text else None
        variant = rng.choice(["plain", "plain", "wrapped"])
        want = judge(stats, loop, text, doc, ctx, variant, rng)
        stats.cls("variant:" + variant)
        stats.cls(sel_tag(text))
        if want is not None:
            stats.cls("sync:" + want[0])
            if want[0] == "err" or want[1]:
                stats.nt(text, canon(doc), variant)
                if len(stats.samples) < 4 and variant == "wrapped":
                    stats.sample({"query": text, "document": short(doc, 160), "variant": variant, "matches": len(want[1]) if want[0] == "ok" else want[1]})
        pending.append((text, doc, ctx))
        if len(pending) >= 4:
            judge_gathered(stats, loop, list(pending), rng)
            pending.clear()

    try:
        hyp_run(cases(), body, n, seed, stats)
    finally:
        loop.close()
    return stats


# ------------------------------------------------------------------ exhaustive matrix

VALUES = {"object": {"a": 1, "0": "s", "q'\\\u0001": [1]}, "array": [1, "s", [2]], "string": "xyz", "number": 7, "boolean": True, "null": None}
SELS = {"name": "['a']", "nasty-name": "['q\\'\\\\\\u0001']", "index": "[0]", "neg-index": "[-1]", "slice": "[0:2]", "rslice": "[::-1]", "wild": "[*]", "keys": "[~]",
        "list": "['a',0,*]", "filter": "[?@]", "filter-cmp": "[?@ == 1]", "filter-len": "[?length(@) > 0]", "filter-key": "[?# == 0]"}


def t_matrix():
    stats = Stats()
    loop = asyncio.new_event_loop()
    rng = random.Random(5)
    n = 0
    try:
        for (vk, v), (sk, sel) in itertools.product(VALUES.items(), SELS.items()):
            for shape, text, doc in (
                ("child", "$.k" + sel, {"k": v, "z": [v]}),
                ("child-in-array", "$[0]" + sel, [v, {"k": v}]),
                ("after-descendant", "$.." + sel, {"k": v, "z": [v, {"k": v}]}),
                ("after-wild", "$[*]" + sel, [v, [v], {"k": v}]),
            ):
                for variant in ("plain", "wrapped"):
                    judge(stats, loop, text, doc, None, variant, rng)
                    n += 1
                stats.nt("matrix", vk, sk, shape)
    finally:
        loop.close()
    stats.subspaces.append({"name": "selector kind (12) x value kind (6) x 4 placements x {plain, async-getter}", "size": n, "exhaustive": True})
    return stats


# ------------------------------------------------------------------ the filter context identifier, bare and rooted, under every kind of context

CTX_TEMPLATES = ["[?_]", "[?!_]", "[?@ == _]", "[?_ == @]", "[?count(_) == 1]", "[?length(_) == 0]", "[?length(_) > 0]", "[?_.a]", "[?!_.a]",
                 "[?_.a == 1]", "[?_.*]", "[?_..a]", "[?_[*] == 1]", "[?@ in _]", "[?_ contains 'a']", "[?value(_) == 1]", "[?count(_.*) == 0]",
                 "[?_ && @]", "[?_ || @ == 1]", "[?_.o.a == @]", "[?@[?_]]", "[?@[?_.a == 1]]", "[?_ == _]", "[?_ != @]"]
CTX_VALUES = [None, {}, {"a": 1}, {"a": None}, {"a": []}, CTX]


def t_context():
    stats = Stats()
    loop = asyncio.new_event_loop()
    rng = random.Random(9)
    n = 0
    docs = [[1, {}, [], "a", None, {"a": 1}, [1]], {"x": {}, "y": 1, "z": {"a": 1}}]
    try:
        for tpl, ctx, doc in itertools.product(CTX_TEMPLATES, CTX_VALUES, docs):
            # alone, and as an operand of a compound query in every operand position (each operand of | and & must be
            # handed the caller's context by the async twin too)
            for text in ("$" + tpl, "$.." + tpl, "$[*] & $" + tpl, "$" + tpl + " & $[*]", "$" + tpl + " | $" + tpl,
                         "$.* & $[*] & $" + tpl, "$.* | $[*] & $.." + tpl):
                for variant in ("plain", "wrapped"):
                    judge(stats, loop, text, doc, ctx, variant, rng)
                    n += 1
            stats.nt("context", tpl, canon(ctx))
    finally:
        loop.close()
    stats.subspaces.append({"name": "24 uses of the filter-context identifier (bare, rooted, nested, as function argument) x 6 contexts "
                                    "(none, empty, ...) x 2 documents x {child, descendant, 5 compound operand positions} x {plain, async-getter}", "size": n, "exhaustive": True})
    return stats


# ------------------------------------------------------------------ root / fake-root / context references from inside nested filters

NESTED_TEMPLATES = [
    "$.items[?@.a[?@.b == $.c]]", "$.items[?@.a[?@.b == $.k]]", "$.items[?@.a[?@.b == _.c]]", "$.items[?count(@.a[?@.b == $.c]) == 1]",
    "$.items[?@.a[?$.items[?@.a]]]", "^[?@.items[?@.a[?@.b == ^[0].c]]]", "$.items[?_.items[?@ == $.c]]", "$.items[?_.items[?@ == $.k]]",
    "$..[?@.b == $.c]", "$.items[*].a[?@.b == $.items[0].a[0].b]", "$.items[?@.a[?@.b == $.c || @.b == $.k]]",
    "$.items[?@.a[?@[?@ == $.c]]]", "$.items[?@.a[?@.b != $.c && @.b == _.c]]", "$.items[?@.a[?length(^[0].items) == @.b]]",
    "$.items[?@.a[0][?@ == $.c]]", "$.items[?value(@.a[?@.b == $.k].b) == $.k]", "$[?@[?@.a[?@.b == $.c]]]", "$.items[?@..[?@.b == $.c]]",
    "$.items[?@.a[?@.b == $.c]] | $.items[?@.a[?@.b == $.k]]", "$.items[?@.a[?@.b == $.c]] & $.items[*]",
]
NESTED_DOCS = [
    {"items": [{"a": [{"b": 1}, {"b": 2}]}, {"a": [{"b": 2}]}, {"a": [{"b": 3}], "c": 3, "k": 3}], "c": 1, "k": 2, "b": 1},
    {"items": [{"a": [{"b": 1, "c": 2}], "c": 2}, {"a": [[1, 2], {"b": 2}], "k": 1}], "c": 2, "k": 1},
    [{"a": [{"b": 0}]}, {"items": [{"a": [{"b": 1}]}], "c": 1}],
]


def t_nested():
    stats = Stats()
    loop = asyncio.new_event_loop()
    rng = random.Random(11)
    n = 0
    try:
        for tpl, doc, ctx in itertools.product(NESTED_TEMPLATES, NESTED_DOCS, (None, {"c": 2, "k": 1, "items": [1, 2]})):
            for variant in ("plain", "wrapped"):
                want = judge(stats, loop, tpl, doc, ctx, variant, rng)
                n += 1
            if want is not None and want[0] == "ok" and want[1]:
                stats.nt("nested", tpl, canon(doc))
    finally:
        loop.close()
    stats.subspaces.append({"name": "20 queries whose nested filters refer to the root / fake root / filter context from two or three levels down "
                                    "x 3 documents x {no, some} context x {plain, async-getter}", "size": n, "exhaustive": True})
    return stats


# ------------------------------------------------------------------ large documents

def t_long():
    """arrays of 1000 elements, objects of 300 members, depth 99: values, order, paths and parts through both APIs"""
    from ..gen import longq
    stats = Stats()
    loop = asyncio.new_event_loop()
    rng = random.Random(13)
    n = 0
    try:
        for di, doc in enumerate(longq.long_docs()):
            for q in ("$[*]", "$.*", "$..*", "$.a[*]", "$.b[*].a", "$[::-1]", "$[::7]", "$[-70:]", "$[63:67]", "$..[64,65,-1]", "$[?@ > 990]", "$.b[?@.b == 2].a",
                      "$..a", "$[*,*]", "$[~]", "$.a[?@ in [1, 64, 65, 999]]", "$[?# > 63]", "$ | $[64]", "$[*] & $[65:70]"):
                for variant in ("plain", "wrapped"):
                    want = judge(stats, loop, q, doc, None, variant, rng)
                    n += 1
                if want is not None and want[0] == "ok" and len(want[1]) > 64:
                    stats.nt("long", q, di)
    finally:
        loop.close()
    stats.subspaces.append({"name": "19 queries x 6 large or deep documents x {plain, async-getter}", "size": n, "exhaustive": True})
    return stats


# ------------------------------------------------------------------ one compiled query, several documents, interleaved


def rooted_filter(rng, doc, ctx):
    """a filter that certainly has a `$`- or `_`-rooted operand (cacheable) next to per-node ones"""
    fg = FilterGen(rng, doc, depth=1, ext=True, ctx_data=ctx)
    cands = list(doc.values()) if isinstance(doc, dict) else list(doc)
    root = rng.choice(["$", "$", "_"])
    start = [doc] if root == "$" else [ctx]
    rq = ["q", root, fg.singular_segments(start, rng.choice([1, 1, 2]))]
    lq = ["q", "@", fg.singular_segments(cands or [None], rng.choice([0, 1, 1]))]
    core = ["cmp", rng.choice(["==", "!=", "<", "<=", ">", ">="]), lq, rq] if rng.random() < 0.8 else ["test", rq]
    r = rng.random()
    if r < 0.3:
        return core
    other = fg.logical(cands, 1)
    return [rng.choice(["and", "or"]), core, other] if r < 0.65 else [rng.choice(["and", "or"]), other, core]


async def _round_robin(path, docs, ctxs, order):
    its = []
    for d, c in zip(docs, ctxs):
        its.append((await path.finditer_async(d, filter_context=c)).__aiter__())
    outs = [[] for _ in docs]
    live = list(range(len(docs)))
    k = 0
    while live:
        i = live[order[k % len(order)] % len(live)]
        k += 1
        try:
            outs[i].append(await its[i].__anext__())
        except StopAsyncIteration:
            live.remove(i)
    return [("ok", norm(o)) for o in outs]


def judge_shared(stats: Stats, loop, text, docs, ctxs, rng):
    env = jsonpath.DEFAULT_ENV
    try:
        path = env.compile(text)
    except Exception:  # noqa: BLE001
        stats.excluded["compile-error"] += 1
        return
    wants = [sync_outcome(path, d, c) for d, c in zip(docs, ctxs)]
    if any(w[0] == "err" for w in wants):
        return
    case = {"text": text, "docs": docs, "ctxs": ctxs, "variant": "shared-path"}
    # (1) round-robin consumption of finditer_async iterators over the plain documents
    order = [rng.randrange(8) for _ in range(32)]
    stats.ev()
    try:
        got = loop.run_until_complete(_round_robin(path, docs, ctxs, order))
    except Exception as e:  # noqa: BLE001
        stats.fail("async-differs:shared-path:raised:%s" % type(e).__name__, case, "round-robin consumption raised %r" % (e,))
        return
    for w, g, d in zip(wants, got, docs):
        compare(stats, case, "path.finditer_async", w, g, "shared-path:round-robin")
    # (2) gathered findall_async / finditer_async over documents with suspending item getters
    seq = [rng.randint(0, 3) for _ in range(64)]
    it = itertools.cycle(seq)
    wrapped = [wrap(d, lambda: next(it)) for d in docs]
    wants_w = [sync_outcome(path, w, c) for w, c in zip(wrapped, ctxs)]
    wants_v = [sync_values(path, w, c) for w, c in zip(wrapped, ctxs)]

    async def fi(w, c):
        return "ok", norm([m async for m in await path.finditer_async(w, filter_context=c)])

    async def fa(w, c):
        return "vals", await path.findall_async(w, filter_context=c)

    async def both():
        return await asyncio.gather(*([fi(w, c) for w, c in zip(wrapped, ctxs)] + [fa(w, c) for w, c in zip(wrapped, ctxs)]))

    stats.ev()
    try:
        res = loop.run_until_complete(both())
    except Exception as e:  # noqa: BLE001
        stats.fail("async-differs:shared-path:raised:%s" % type(e).__name__, case, "gathered evaluation raised %r" % (e,))
        return
    n = len(docs)
    for i in range(n):
        compare(stats, case, "path.finditer_async", wants_w[i], res[i], "shared-path:gathered")
        compare(stats, case, "path.findall_async", wants_v[i], res[n + i], "shared-path:gathered")


@st.composite
def shared_cases(draw):
    names = st.sampled_from(["a", "b", "c"])
    docs = draw(st.lists(D.containers(name_st=names, scalars=st.sampled_from([0, 1, 2, 3, "a", "b", None, True]), max_leaves=8), min_size=2, max_size=4))
    return docs, draw(st.integers(0, 2**32 - 1))


def t_shared(seed, n):
    stats = Stats()
    loop = asyncio.new_event_loop()

    def body(x):
        docs, s = x
        rng = rng_for(s)
        stats.case()
        ctxs = [{"a": rng.choice([0, 1, 2, "a"]), "b": rng.choice([0, 1, 2, "b"]), "c": [rng.randint(0, 3)]} for _ in docs]
        base = rng.choice(docs)
        f = rooted_filter(rng, base, ctxs[0])
        seg = ["d" if rng.random() < 0.4 else "c", [["f", f]]]
        text = Renderer(None).query(["q", "$", [seg]], top=True)
        judge_shared(stats, loop, text, docs, ctxs, rng)
        stats.cls("shared-path")
        stats.nt("shared", text, canon(docs))
        if len(stats.samples) < 3:
            stats.sample({"query": text, "documents": short(docs, 200), "schedule": "round-robin + gathered with suspending getters"})

    try:
        hyp_run(shared_cases(), body, n, seed, stats)
    finally:
        loop.close()
    return stats


# ------------------------------------------------------------------ error parity with a function extension that raises


class _Strict(jsonpath.function_extensions.FilterFunction):
    arg_types = [jsonpath.function_extensions.ExpressionType.VALUE]
    return_type = jsonpath.function_extensions.ExpressionType.VALUE

    def __call__(self, v):
        if isinstance(v, str):
            raise jsonpath.JSONPathTypeError("vfnum() does not accept strings")
        return v


class RaisingEnv(jsonpath.JSONPathEnvironment):
    def setup_function_extensions(self):
        super().setup_function_extensions()
        self.function_extensions["vfnum"] = _Strict()


def t_errors():
    """async raises exactly when sync does, whichever operand raises and whatever the other operand decides"""
    stats = Stats()
    env = RaisingEnv()
    loop = asyncio.new_event_loop()
    rng = random.Random(9)
    docs = [[{"a": 1, "b": 1}, {"a": 0, "b": 2}], [{"a": 1, "b": "s"}], [{"a": 0, "b": "s"}], [{"b": "s"}], [{"a": "s", "b": 1}],
            {"x": {"a": False, "b": "s"}, "y": {"a": True, "b": 3}}, [{"a": None, "b": "s"}, {"a": 1}]]
    R = "vfnum(@.b) >= 0"
    L = ["@.a", "@.a == 1", "!@.a", "@.zz", "vfnum(@.a) == 1", "@.a > 0"]
    texts = []
    for l in L:
        for op in ("&&", "||"):
            texts += ["$[?%s %s %s]" % (l, op, R), "$[?%s %s %s]" % (R, op, l), "$[?(%s %s %s) && @.a]" % (l, op, R), "$[?!(%s %s %s)]" % (l, op, R),
                      "$..[?%s %s %s]" % (l, op, R), "$[?@.zz || (%s %s %s)]" % (l, op, R)]
    texts += ["$[?%s]" % R, "$[?vfnum(@.b) == vfnum(@.a)]", "$[?count(@[?%s]) > 0]" % R, "$[?@[?%s]]" % R]
    n = 0
    try:
        for text in texts:
            for doc in docs:
                for variant in ("plain", "wrapped"):
                    judge(stats, loop, text, doc, None, variant, rng, env=env)
                    n += 1
            stats.nt("errors", text)
    finally:
        loop.close()
    stats.subspaces.append({"name": "logical expressions whose left/right operand raises JSONPathTypeError (registered function) x deciding/non-deciding other operand x 7 documents x {plain, async-getter}",
                            "size": n, "exhaustive": True})
    return stats


def tasks(tier, seed):
    ts = [{"name": "matrix", "fn": "t_matrix"}, {"name": "context", "fn": "t_context"}, {"name": "nested", "fn": "t_nested"}, {"name": "long", "fn": "t_long"}, {"name": "errors", "fn": "t_errors"}]
    for k in range(4):
        ts.append({"name": "shared-%d" % k, "fn": "t_shared", "kw": {"seed": mix(seed, ID, "s", k), "n": 500 if tier == "quick" else 8000}})
    n = 1200 if tier == "quick" else 20000
    for k in range(12):
        ts.append({"name": "random-%d" % k, "fn": "t_random", "kw": {"seed": mix(seed, ID, k), "n": n}})
    return ts


def replay(case):
    stats = Stats()
    loop = asyncio.new_event_loop()
    if case.get("variant") == "shared-path":
        try:
            for s_ in range(8):
                judge_shared(stats, loop, case["text"], case["docs"], case["ctxs"], random.Random(s_))
        finally:
            loop.close()
        return stats
    if "vfnum" in case.get("text", ""):
        loop.close()
        return t_errors()
    try:
        for s in range(6):
            rng = rng_for(s)
            v = case.get("variant", "plain")
            judge(stats, loop, case["text"], case["doc"], case.get("ctx"), "wrapped" if v == "gathered" else v, rng)
    finally:
        loop.close()
    return stats
