"""Model pre-flight: the reference models must agree with the RFCs' own worked examples.

A model that disagrees with its RFC examples is a harness error (exit 2), never a violation.
Run by setup.sh and importable by checks.
"""
from __future__ import annotations

import sys

from .ref import rfc9535 as r
from .strict import jeq

# RFC 9535 section 1.5 / 2.3 / 2.5 examples, as ASTs (hand-transcribed)
BOOK = {
    "store": {
        "book": [
            {"category": "reference", "author": "Nigel Rees", "title": "Sayings of the Century", "price": 8.95},
            {"category": "fiction", "author": "Evelyn Waugh", "title": "Sword of Honour", "price": 12.99},
            {"category": "fiction", "author": "Herman Melville", "title": "Moby Dick", "isbn": "0-553-21311-3", "price": 8.99},
            {"category": "fiction", "author": "J. R. R. Tolkien", "title": "The Lord of the Rings", "isbn": "0-395-19395-8", "price": 22.99},
        ],
        "bicycle": {"color": "red", "price": 399},
    }
}


def N(x):
    return ["n", x]


def C(*s):
    return ["c", list(s)]


def Dd(*s):
    return ["d", list(s)]


def Qy(root, *segs):
    return ["q", root, list(segs)]


def vals(q, doc):
    return [v for _, v in r.evaluate(q, doc)]


def check_9535():
    errs = []

    def eq(name, got, want):
        if not (len(got) == len(want) and all(jeq(a, b) for a, b in zip(got, want))):
            errs.append("%s: got %r want %r" % (name, got, want))

    b = BOOK
    eq("authors", vals(Qy("$", C(N("store")), C(N("book")), C(["w"]), C(N("author"))), b),
       ["Nigel Rees", "Evelyn Waugh", "Herman Melville", "J. R. R. Tolkien"])
    eq("..author", vals(Qy("$", Dd(N("author"))), b),
       ["Nigel Rees", "Evelyn Waugh", "Herman Melville", "J. R. R. Tolkien"])
    eq("store..price", vals(Qy("$", C(N("store")), Dd(N("price"))), b), [8.95, 12.99, 8.99, 22.99, 399])
    eq("book[2]", vals(Qy("$", Dd(N("book")), C(["i", 2]), C(N("title"))), b), ["Moby Dick"])
    eq("book[-1]", vals(Qy("$", Dd(N("book")), C(["i", -1]), C(N("title"))), b), ["The Lord of the Rings"])
    eq("book[0,1]", [v["title"] for v in vals(Qy("$", Dd(N("book")), C(["i", 0], ["i", 1])), b)],
       ["Sayings of the Century", "Sword of Honour"])
    eq("book[:2]", [v["title"] for v in vals(Qy("$", Dd(N("book")), C(["s", None, 2, None])), b)],
       ["Sayings of the Century", "Sword of Honour"])
    eq("book[?@.isbn]", [v["title"] for v in vals(Qy("$", Dd(N("book")), C(["f", ["test", Qy("@", C(N("isbn")))]])), b)],
       ["Moby Dick", "The Lord of the Rings"])
    eq("book[?@.price<10]", [v["title"] for v in vals(
        Qy("$", Dd(N("book")), C(["f", ["cmp", "<", Qy("@", C(N("price"))), ["lit", 10]]])), b)],
       ["Sayings of the Century", "Moby Dick"])
    # 2.3.4.3 slice examples
    arr = ["a", "b", "c", "d", "e", "f", "g"]
    eq("[1:3]", vals(Qy("$", C(["s", 1, 3, None])), arr), ["b", "c"])
    eq("[5:]", vals(Qy("$", C(["s", 5, None, None])), arr), ["f", "g"])
    eq("[1:5:2]", vals(Qy("$", C(["s", 1, 5, 2])), arr), ["b", "d"])
    eq("[5:1:-2]", vals(Qy("$", C(["s", 5, 1, -2])), arr), ["f", "d"])
    eq("[::-1]", vals(Qy("$", C(["s", None, None, -1])), arr), ["g", "f", "e", "d", "c", "b", "a"])
    # 2.5.2.3 descendant examples
    d = {"o": {"j": 1, "k": 2}, "a": [5, 3, [{"j": 4}, {"k": 6}]]}
    eq("..j", vals(Qy("$", Dd(N("j"))), d), [1, 4])
    eq("..[0]", vals(Qy("$", Dd(["i", 0])), d), [5, {"j": 4}])
    eq("..*", vals(Qy("$", Dd(["w"])), d),
       [{"j": 1, "k": 2}, [5, 3, [{"j": 4}, {"k": 6}]], 1, 2, 5, 3, [{"j": 4}, {"k": 6}], {"j": 4}, {"k": 6}, 4, 6])
    eq("o[*,*]", vals(Qy("$", C(N("o")), C(["w"], ["w"])), d), [1, 2, 1, 2])
    eq("a[0,0]", vals(Qy("$", C(N("a")), C(["i", 0], ["i", 0])), d), [5, 5])
    # 2.3.5.3 filter examples
    f = {"a": [3, 5, 1, 2, 4, 6, {"b": "j"}, {"b": "k"}, {"b": {}}, {"b": "kilo"}],
         "o": {"p": 1, "q": 2, "r": 3, "s": 5, "t": {"u": 6}}, "e": "f"}
    eq("a[?@.b=='kilo']", vals(Qy("$", C(N("a")), C(["f", ["cmp", "==", Qy("@", C(N("b"))), ["lit", "kilo"]]])), f),
       [{"b": "kilo"}])
    eq("a[?@>3.5]", vals(Qy("$", C(N("a")), C(["f", ["cmp", ">", Qy("@"), ["lit", 3.5]]])), f), [5, 4, 6])
    eq("a[?@.b]", vals(Qy("$", C(N("a")), C(["f", ["test", Qy("@", C(N("b")))]])), f),
       [{"b": "j"}, {"b": "k"}, {"b": {}}, {"b": "kilo"}])
    eq("[?@.*]", vals(Qy("$", C(["f", ["test", Qy("@", C(["w"]))]])), f), [f["a"], f["o"]])
    eq("[?@[?@.b]]", vals(Qy("$", C(["f", ["test", Qy("@", C(["f", ["test", Qy("@", C(N("b")))]]))]])), f), [f["a"]])
    eq("o[?@<3,?@<3]", vals(Qy("$", C(N("o")), C(["f", ["cmp", "<", Qy("@"), ["lit", 3]]], ["f", ["cmp", "<", Qy("@"), ["lit", 3]]])), f),
       [1, 2, 1, 2])
    eq('a[?@<2||@.b=="k"]', vals(Qy("$", C(N("a")), C(["f", ["or", ["cmp", "<", Qy("@"), ["lit", 2]],
                                                              ["cmp", "==", Qy("@", C(N("b"))), ["lit", "k"]]]])), f),
       [1, {"b": "k"}])
    eq('a[?match(@.b,"[jk]")]', vals(Qy("$", C(N("a")), C(["f", ["call", "match", [Qy("@", C(N("b"))), ["lit", "[jk]"]]]])), f),
       [{"b": "j"}, {"b": "k"}])
    eq('a[?search(@.b,"[jk]")]', vals(Qy("$", C(N("a")), C(["f", ["call", "search", [Qy("@", C(N("b"))), ["lit", "[jk]"]]]])), f),
       [{"b": "j"}, {"b": "k"}, {"b": "kilo"}])
    eq("o[?@>1&&@<4]", vals(Qy("$", C(N("o")), C(["f", ["and", ["cmp", ">", Qy("@"), ["lit", 1]], ["cmp", "<", Qy("@"), ["lit", 4]]]])), f),
       [2, 3])
    eq("o[?@.u||@.x]", vals(Qy("$", C(N("o")), C(["f", ["or", ["test", Qy("@", C(N("u")))], ["test", Qy("@", C(N("x")))]]])), f),
       [{"u": 6}])
    eq("a[?@.b==$.x]", vals(Qy("$", C(N("a")), C(["f", ["cmp", "==", Qy("@", C(N("b"))), Qy("$", C(N("x")))]])), f),
       [3, 5, 1, 2, 4, 6])
    eq("a[?@==@]", vals(Qy("$", C(N("a")), C(["f", ["cmp", "==", Qy("@"), Qy("@")]])), f), f["a"])
    # 2.3.5.2.2 comparison table (obj/arr document of the RFC)
    t = {"obj": {"x": "y"}, "arr": [2, 3]}
    ctx = r.Ctx(t)

    def cmp(op, l, rr):
        return r.truth(["cmp", op, l, rr], None, None, ctx)

    absent1, absent2 = Qy("$", C(N("absent1"))), Qy("$", C(N("absent2")))
    tab = [
        (cmp("==", absent1, absent2), True), (cmp("<=", absent1, absent2), True),
        (cmp("==", absent1, ["lit", "g"]), False), (cmp("!=", absent1, absent2), False),
        (cmp("!=", absent1, ["lit", "g"]), True), (cmp("<=", ["lit", 1], ["lit", 2]), True),
        (cmp(">", ["lit", 1], ["lit", 2]), False), (cmp("==", ["lit", 13], ["lit", "13"]), False),
        (cmp("<=", ["lit", "a"], ["lit", "b"]), True), (cmp(">", ["lit", "a"], ["lit", "b"]), False),
        (cmp("==", Qy("$", C(N("obj"))), Qy("$", C(N("arr")))), False),
        (cmp("!=", Qy("$", C(N("obj"))), Qy("$", C(N("arr")))), True),
        (cmp("==", Qy("$", C(N("obj"))), Qy("$", C(N("obj")))), True),
        (cmp("<=", Qy("$", C(N("obj"))), Qy("$", C(N("arr")))), False),
        (cmp("<", Qy("$", C(N("obj"))), Qy("$", C(N("arr")))), False),
        (cmp("<=", Qy("$", C(N("obj"))), Qy("$", C(N("obj")))), True),
        (cmp("<=", Qy("$", C(N("arr"))), Qy("$", C(N("arr")))), True),
        (cmp("<=", ["lit", 1], Qy("$", C(N("arr")))), False), (cmp(">=", ["lit", 1], Qy("$", C(N("arr")))), False),
        (cmp(">", ["lit", 1], Qy("$", C(N("arr")))), False), (cmp("<", ["lit", 1], Qy("$", C(N("arr")))), False),
        (cmp("<=", ["lit", True], ["lit", True]), True), (cmp(">", ["lit", True], ["lit", True]), False),
    ]
    for i, (got, want) in enumerate(tab):
        if got != want:
            errs.append("comparison table row %d: got %r want %r" % (i, got, want))
    return errs


def main():
    errs = check_9535()
    for name in ("rfc6901", "rfc6902", "relptr", "npath", "typing9535", "parse9535"):
        try:
            mod = __import__("vf.ref." + name, fromlist=["selftest"])
        except ImportError:
            continue
        if hasattr(mod, "selftest"):
            errs += ["%s: %s" % (name, e) for e in mod.selftest()]
    if errs:
        print("PREFLIGHT-ERROR: reference model disagrees with RFC examples:")
        for e in errs:
            print("  ", e)
        return 2
    print("preflight ok")
    return 0


if __name__ == "__main__":
    sys.exit(main())
