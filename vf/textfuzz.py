"""Text-level mutation fuzzing of RFC 9535 queries against an independent parser + evaluator + typing checker.

The other generators render an AST into text, so they can only produce the spellings the renderer knows.  Here the
direction is reversed: a rendered valid query is mutated character- and token-wise, the mutant is classified by
vf.ref.parse9535 (a hand transcription of the ABNF) and vf.ref.typing9535, and

  * if the reference says "well-formed and well-typed": the library must compile it and return exactly the nodelist
    the reference evaluator computes from the reference's own AST (C01 without filters, C02 with, C07 for compiling);
  * if the reference says "well-formed but for a listed refusal" (leading-zero index, empty or comma-terminated list,
    out-of-range bound, uncompared literal, typing rule broken): the library must refuse at compile time (C07);
  * anything else (not RFC grammar: the library's extensions live here) is not judged.
"""
from __future__ import annotations

import re

from . import lib
from .oracle import judge_query
from .ref import parse9535 as RP
from .ref import typing9535 as T
from .ref.rfc9535 import FUNCS

TOKENS = ["..", "[*]", ".*", "['a']", '["a"]', "[0]", "[-1]", "[1:2]", "[::2]", "[?@.a]", "[?@]", " && ", "&&", " || ", "||", "==", "!=",
          "<=", ">=", "<", ">", "!", "(", ")", "true", "false", "null", "1e2", "-0", "0.5", "1E-1", "\\u0041", "\\n", "\\/", "\\\\", "\\'",
          '\\"', '"b"', "'b'", "length(@)", "count(@.*)", "value(@..a)", "match(@.a,'a')", "search(@, 'b')", "01", ",", ":", "?",
          "9007199254740991", "9007199254740992", "-9007199254740991", "@", "$", ".a", ".b", "[", "]", "'", '"', "\\ud83d\\ude00",
          "\\ud83d", "é", "\U0001F600", "_", "-", "+", "e", ".", "0", "1", "2", " ", "\t", "\n", "\r", "@.a==1", "$.a", "@['a']", "@[0]",
          "!@.b", "(@.a)", "1==1", "'a'=='a'", "@.a<@.b", "count(@..*)>1", "length(@.a)>=0", "value(@.a)==null"]
WS = [" ", "\t", "\n", "\r", "  "]
STRUCT = "$@.[]()?*,:'\"!&|=<>-+0123456789eE\\u abtn_/"

SAFE_RE = re.compile(r"(?:[A-Za-z0-9 _.]|[*+?|()]|\[[a-z0-9]-[a-z0-9]\]|\{[0-9](?:,[0-9]?)?\})*")


def mutate(rng, text, others=()):
    """1-3 random edits of `text`."""
    s = text
    for _ in range(rng.choice([1, 1, 1, 2, 2, 3])):
        r = rng.random()
        pos = rng.randrange(len(s) + 1)
        if r < 0.22:
            s = s[:pos] + rng.choice(WS) + s[pos:]
        elif r < 0.36 and s:
            pos = min(pos, len(s) - 1)
            s = s[:pos] + s[pos + 1:]
        elif r < 0.44 and s:
            pos = min(pos, len(s) - 1)
            s = s[:pos] + s[pos] + s[pos:]
        elif r < 0.56 and s:
            pos = min(pos, len(s) - 1)
            s = s[:pos] + rng.choice(STRUCT) + s[pos + 1:]
        elif r < 0.84:
            s = s[:pos] + rng.choice(TOKENS) + s[pos:]
        elif r < 0.90 and len(s) > 1:
            pos = min(pos, len(s) - 2)
            s = s[:pos] + s[pos + 1] + s[pos] + s[pos + 2:]
        elif others:
            o = rng.choice(others)
            a = rng.randrange(len(o) + 1)
            b = min(len(o), a + rng.randrange(1, 12))
            s = s[:pos] + o[a:b] + s[pos:]
        else:
            s = s[:pos] + rng.choice(TOKENS) + s[pos:]
    return s


def classify(text):
    """-> ("syntax", None, why) | ("open", ast, flags) | ("invalid", ast, rules) | ("valid", ast, None)"""
    try:
        ast, flags = RP.parse(text)
    except RP.RefSyntaxError as e:
        return "syntax", None, str(e)
    except RecursionError:
        return "syntax", None, "deep"
    opens = sorted(f for f in flags if f.startswith("open."))
    if opens:
        return "open", ast, opens
    calls = RP.calls_in(ast, [])
    for c in calls:
        if c[1] not in FUNCS and c[1] in lib.ENV.function_extensions:
            return "open", ast, ["open.nonstandard-function"]
    rules = sorted(f for f in flags if f.startswith("gate.")) + sorted(set(T.check_top_query(ast)))
    if rules:
        return "invalid", ast, rules
    return "valid", ast, None


def regex_judgeable(ast):
    """match()/search() are judged only with a literal pattern in the small dialect shared by I-Regexp and Python re."""
    for c in RP.calls_in(ast, []):
        if c[1] in ("match", "search") and len(c[2]) == 2:
            p = c[2][1]
            if p[0] != "lit" or not isinstance(p[1], str) or not SAFE_RE.fullmatch(p[1]):
                return False
            try:
                re.compile(p[1])
            except Exception:  # noqa: BLE001
                return False
    return True


def judge_text(stats, text, docs, want="any", origin="textfuzz", base=None):
    """Classify `text` with the reference and hold the library to it.  `want`: "any" | "nofilter" | "filter" | "gate".
    Returns the class."""
    kind, ast, info = classify(text)
    stats.cls("textfuzz:" + kind)
    if kind in ("syntax", "open"):
        stats.excluded["text outside the RFC 9535 grammar or in a corner the reference does not judge"] += 1
        return kind
    case = {"text": text, "docs": docs, "origin": origin, "want": want}
    if base is not None:
        case["base"] = base
    if kind == "invalid":
        if want in ("any", "gate"):
            stats.ev()
            for r in info:
                stats.cls("textfuzz:invalid:" + r)
            try:
                lib.ENV.compile(text)
            except lib.JSONPathError:
                pass
            except RecursionError:
                pass
            except Exception as e:  # noqa: BLE001
                stats.fail("textfuzz:invalid-crashed:%s" % type(e).__name__, case, "%r (%s): %s: %s" % (text, info, type(e).__name__, e))
            else:
                stats.fail("textfuzz:invalid-accepted:%s" % info[0], case, "query %r compiles although it breaks: %s" % (text, ", ".join(info)))
        return kind
    hasf = RP.has_filter(ast) or any(RP.has_filter(q) for q in _subqueries(ast))
    if want == "nofilter" and hasf:
        return kind
    if want == "filter" and not hasf:
        return kind
    if want == "gate":
        stats.ev()
        try:
            lib.ENV.compile(text)
        except lib.JSONPathError as e:
            stats.fail("textfuzz:valid-rejected:%s:%s" % (type(e).__name__, lib.norm_msg(e)), case,
                       "well-formed, well-typed RFC 9535 query %r rejected: %s: %s" % (text, type(e).__name__, e))
        except Exception as e:  # noqa: BLE001
            stats.fail("textfuzz:valid-crashed:%s@%s" % (type(e).__name__, lib.exc_site(e)), case, "%r: %s: %s" % (text, type(e).__name__, e))
        return kind
    if not regex_judgeable(ast):
        stats.excluded["match()/search() with a pattern outside the judged dialect"] += 1
        return "open"
    for doc in docs:
        judge_query(stats, ast, doc, text, origin, entry_points=False, case_extra={"want": want, "docs": docs})
    return kind


def _subqueries(ast):
    out = []

    def walk(e):
        if isinstance(e, list):
            if e and e[0] == "q":
                out.append(e)
            for x in e:
                walk(x)
    for seg in ast[2]:
        walk(seg)
    return out


def replay_case(stats, case):
    judge_text(stats, case["text"], case.get("docs") or [case.get("doc")], want=case.get("want", "any"), origin="textfuzz")


def task(seed, n, want, nmut=6):
    """Hypothesis-driven: (document, seed) -> a valid generated query in one spelling -> `nmut` mutants, each judged."""
    from hypothesis import strategies as st

    from .gen import docs as D
    from .gen import queries as Q
    from .gen.filters import FilterGen
    from .gen.render import Renderer
    from .run import Stats, hyp_run, rng_for
    from .strict import canon, short

    stats = Stats()
    recent = []

    @st.composite
    def cases(draw):
        return draw(D.containers(max_leaves=12)), draw(st.integers(0, 2**32 - 1))

    def body(x):
        doc, s = x
        rng = rng_for(s)
        with_filter = want in ("filter",) or (want in ("any", "gate") and rng.random() < 0.6)
        if with_filter:
            fg = FilterGen(rng, doc, depth=rng.choice([1, 2, 2, 3]))
            lead, cur = Q.gen_segments(rng, doc, nmax=rng.choice([0, 0, 1, 2]), desc_p=0.15) if rng.random() < 0.5 else ([], [doc])
            cur = cur or [doc]
            segs = lead + [["c", [["f", fg(rng, cur)]]]]
            if rng.random() < 0.2:
                segs.append(["c", [rng.choice([["w"], ["n", "a"], ["i", 0]])]])
        else:
            segs, _ = Q.gen_segments(rng, doc, nmax=4)
        ast = ["q", "$", segs]
        base = Renderer(rng if rng.random() < 0.7 else None).query(ast, top=True)
        stats.case()
        for _ in range(nmut):
            text = mutate(rng, base, recent)
            if text == base:
                continue
            kind = judge_text(stats, text, [doc], want=want, base=base)
            if kind in ("valid", "invalid"):
                stats.nt(text, canon(doc) if kind == "valid" else "")
                if len(stats.samples) < 8 and rng.random() < 0.05:
                    stats.sample({"base": base, "mutant": text, "reference says": kind, "document": short(doc, 120)})
        if len(recent) < 50:
            recent.append(base)
        else:
            recent[rng.randrange(50)] = base

    hyp_run(cases(), body, n, seed, stats)
    return stats


def shrink_case(case, pred):
    """Delete characters of the text one at a time (then shrink the documents) while the failure persists."""
    import time

    from .run import shrink_value

    case = {k: v for k, v in case.items() if k != "ast"}
    if not pred(case):
        return case
    t0 = time.time()
    text = case["text"]
    changed = True
    while changed and time.time() - t0 < 10:
        changed = False
        i = 0
        while i < len(text) and time.time() - t0 < 10:
            cand = text[:i] + text[i + 1:]
            c = dict(case)
            c["text"] = cand
            if pred(c):
                text = cand
                case = c
                changed = True
            else:
                i += 1

    def p_docs(d):
        c = dict(case)
        c["docs"] = d
        c.pop("doc", None)
        return bool(d) and pred(c)

    docs = case.get("docs") or [case.get("doc")]
    case["docs"] = shrink_value(docs, p_docs, budget_s=6)
    case.pop("doc", None)
    return case
