"""Shared oracle: library (text) vs reference evaluator (AST) on one document."""
from __future__ import annotations

from . import lib
from .ref import rfc9535 as ref
from .run import Stats
from .strict import short

# ------------------------------------------------------------------ oracle


def judge_query(stats: Stats, ast, doc, text, origin, known_quirks=(), extra=None, env=None,
                entry_points=True, case_extra=None):
    """Compare the library on `text` with the reference on `ast`."""
    ctx = ref.Ctx(doc, extra)
    expected = ref.evaluate(ast, doc, ctx=ctx)
    stats.ev()
    case = {"ast": ast, "doc": doc, "text": text, "origin": origin}
    if extra is not None:
        case["extra"] = extra
    if case_extra:
        case.update(case_extra)
    if "membership.unjudged" in ctx.events:
        stats.excluded["membership the documentation leaves undefined"] += 1
        return None, ctx
    if "regex.unjudged" in ctx.events:
        stats.excluded["regular expression outside the dialect shared by I-Regexp and Python re"] += 1
        return None, ctx
    kind, res = lib.find(text, doc, env=env, filter_context=extra)
    if kind == "err":
        if isinstance(res, lib.JSONPathError):
            sig = "reject:%s:%s" % (type(res).__name__, lib.norm_msg(res))
        else:
            sig = "crash:%s@%s" % (type(res).__name__, lib.exc_site(res))
        stats.fail(sig, case, "valid RFC 9535 query %r rejected: %s: %s" % (text, type(res).__name__, res))
        return expected, ctx
    diff = diff_nodelists(res, expected)
    if diff is not None:
        sig = None
        for qk in known_quirks:
            alt = ref.evaluate(ast, doc, ctx=ref.Ctx(doc, extra, quirks=[qk]))
            if diff_nodelists(res, alt) is None:
                sig = "quirk:" + qk
                break
        if sig is None:
            sig = "mismatch:%s:%s" % (diff[0], ",".join(sorted(ctx.events)) or "-")
        stats.fail(sig, case, "query %r on %s: %s" % (text, short(doc, 300), diff[1]))
        return expected, ctx
    if not entry_points:
        return expected, ctx
    # entry points named by the property
    try:
        e_ = env or lib.ENV
        vals_a = e_.findall(text, doc, filter_context=extra)
        vals_b = e_.compile(text).findall(doc, filter_context=extra)
    except Exception as e:  # noqa: BLE001
        stats.fail("entry:%s" % type(e).__name__, case, "findall raised %r after finditer succeeded" % (e,))
        return expected, ctx
    for name, vals in (("findall", vals_a), ("compile.findall", vals_b)):
        if len(vals) != len(expected) or not all(lib.same_node(v, e[1]) for v, e in zip(vals, expected)):
            stats.fail("entry-mismatch:" + name, case, "%s(%r) = %s, finditer agrees with reference" % (name, text, short(vals)))
    return expected, ctx


def diff_nodelists(res, expected):
    """res: [(parts, obj, path)] from the library; expected: [(parts, value)]."""
    if len(res) != len(expected):
        lp = [r[0] for r in res]
        ep = [e[0] for e in expected]
        kind = "extra" if len(res) > len(expected) else "missing"
        return kind, "library returned %d nodes %s, RFC gives %d nodes %s" % (
            len(res), short(lp, 200), len(expected), short(ep, 200))
    for i, (r, e) in enumerate(zip(res, expected)):
        if tuple(r[0]) != tuple(e[0]) or any(type(a) is not type(b) for a, b in zip(r[0], e[0])):
            lp = [x[0] for x in res]
            ep = [x[0] for x in expected]
            kind = "order" if sorted(map(repr, lp)) == sorted(map(repr, ep)) else "parts"
            return kind, "node %d: library location %r, RFC location %r (library %s, RFC %s)" % (
                i, r[0], e[0], short(lp, 200), short(ep, 200))
        if not lib.same_node(r[1], e[1]):
            return "value", "node %d at %r: library value %s is not the document node %s" % (
                i, r[0], short(r[1], 100), short(e[1], 100))
    return None


