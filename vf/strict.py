"""Strict JSON comparison, canonical dumping and hashing (DESIGN 1.2).

Python's == identifies True with 1; JSON does not.  Everything the oracles compare goes
through `jeq`.
"""
from __future__ import annotations

import hashlib
import json
import math


def jtype(v):
    if v is None:
        return "null"
    if isinstance(v, bool):
        return "boolean"
    if isinstance(v, (int, float)):
        return "number"
    if isinstance(v, str):
        return "string"
    if isinstance(v, (list, tuple)):
        return "array"
    if isinstance(v, dict):
        return "object"
    return "other:" + type(v).__name__


def jeq(a, b) -> bool:
    """JSON equality: same JSON type at every depth, numbers numerically, object keys str."""
    ta, tb = jtype(a), jtype(b)
    if ta != tb:
        return False
    if ta == "number":
        return a == b
    if ta in ("null", "boolean", "string"):
        return a == b
    if ta == "array":
        return len(a) == len(b) and all(jeq(x, y) for x, y in zip(a, b))
    if ta == "object":
        if len(a) != len(b):
            return False
        for k in a:
            if not isinstance(k, str):
                return False
        for k in b:
            if not isinstance(k, str):
                return False
        if set(a) != set(b):
            return False
        return all(jeq(a[k], b[k]) for k in a)
    return False


def is_json(v) -> bool:
    t = jtype(v)
    if t.startswith("other"):
        return False
    if t == "number" and isinstance(v, float) and (math.isnan(v) or math.isinf(v)):
        return False
    if t == "array":
        return all(is_json(x) for x in v)
    if t == "object":
        return all(isinstance(k, str) and is_json(x) for k, x in v.items())
    return True


def canon(v) -> str:
    """Canonical text of a JSON-like value that keeps bool/int/float and key order apart."""
    if v is None:
        return "n"
    if isinstance(v, bool):
        return "T" if v else "F"
    if isinstance(v, int):
        return "i%d" % v
    if isinstance(v, float):
        return "f%r" % v
    if isinstance(v, str):
        return "s" + json.dumps(v)
    if isinstance(v, (list, tuple)):
        return "[" + ",".join(canon(x) for x in v) + "]"
    if isinstance(v, dict):
        return "{" + ",".join(canon(k) + ":" + canon(x) for k, x in v.items()) + "}"
    return "?" + repr(v)


def h64(*parts) -> int:
    m = hashlib.blake2b(digest_size=8)
    for p in parts:
        m.update((p if isinstance(p, str) else canon(p)).encode("utf-8", "surrogatepass"))
        m.update(b"\x00")
    return int.from_bytes(m.digest(), "big")


def short(v, n=160) -> str:
    if isinstance(v, str):
        s = v
    else:
        try:
            s = json.dumps(v, ensure_ascii=False, default=repr)
        except (TypeError, ValueError):
            s = repr(v)
    return s if len(s) <= n else s[: n - 3] + "..."


def walk(doc, parts):
    """Follow parts (str for objects, int for arrays) strictly; raise LookupError."""
    cur = doc
    for p in parts:
        if isinstance(cur, dict):
            if not isinstance(p, str) or p not in cur:
                raise LookupError(p)
            cur = cur[p]
        elif isinstance(cur, list):
            if isinstance(p, bool) or not isinstance(p, int) or not 0 <= p < len(cur):
                raise LookupError(p)
            cur = cur[p]
        else:
            raise LookupError(p)
    return cur


def nodes(doc, parts=()):
    """All (parts, value) of a document in pre-order."""
    yield parts, doc
    if isinstance(doc, dict):
        for k, v in doc.items():
            yield from nodes(v, parts + (k,))
    elif isinstance(doc, list):
        for i, v in enumerate(doc):
            yield from nodes(v, parts + (i,))


def container_ids(doc):
    out = []
    for _, v in nodes(doc):
        if isinstance(v, (dict, list)):
            out.append(id(v))
    return out


def is_cyclic(v, _stack=None) -> bool:
    """True if a container is its own descendant (not a JSON value)."""
    if not isinstance(v, (dict, list)):
        return False
    _stack = _stack if _stack is not None else set()
    if id(v) in _stack:
        return True
    _stack.add(id(v))
    try:
        it = v.values() if isinstance(v, dict) else v
        return any(is_cyclic(x, _stack) for x in it)
    finally:
        _stack.discard(id(v))
