"""Reference evaluator for RFC 9535 queries over a JSON AST.  Never imports jsonpath.

AST (plain JSON lists, so cases can be stored and shrunk):
  query   ["q", root, [segment...]]          root: "$" | "@" | "_" | "^"
  segment ["c", [selector...]] | ["d", [selector...]]
  selector ["n", name] | ["i", int] | ["s", start|None, stop|None, step|None] | ["w"]
           | ["f", expr] | ["k"]                                   (["k"] = keys, extension)
  expr    ["or", l, r] | ["and", l, r] | ["not", e] | ["par", e]
          | ["cmp", op, l, r] | ["test", query] | ["call", fn, [arg...]]
          | ["lit", scalar] | query
          extensions: ["key"] | ["undef"] | ["in", l, r] | ["has", l, r]
                      | ["re", l, pattern, flags] | ["list", [scalar...]]

Semantics follow DESIGN Appendix A.2.  The two documented departures of the library are
parameters and ON by default: index selector on an object selects the member named
str(index); members are visited in document order.

`quirks` is a set of named single-rule inversions used only to attribute a failure to a
listed known finding (the library's answer must equal the model's answer with exactly
that rule inverted).
"""
from __future__ import annotations

import re


class _Nothing:
    def __repr__(self):
        return "Nothing"


NOTHING = _Nothing()

FUNCS = {
    # name: (param types, return type)
    "length": (["V"], "V"),
    "count": (["N"], "V"),
    "value": (["N"], "V"),
    "match": (["V", "V"], "L"),
    "search": (["V", "V"], "L"),
}

RE_FLAGS = {"a": re.A, "i": re.I, "m": re.M, "s": re.S}


class Ctx:
    __slots__ = ("root", "extra", "quirks", "events", "index_on_object")

    def __init__(self, root, extra=None, quirks=(), index_on_object=True):
        self.root = root
        self.extra = extra if extra is not None else {}
        self.quirks = frozenset(quirks)
        self.events = set()
        self.index_on_object = index_on_object


def is_num(v):
    return isinstance(v, (int, float)) and not isinstance(v, bool)


def deep_eq(a, b, ctx=None):
    if a is NOTHING or b is NOTHING:
        return a is NOTHING and b is NOTHING
    if isinstance(a, bool) or isinstance(b, bool):
        if ctx is not None and (is_num(a) or is_num(b)):
            ctx.events.add("eq.bool-vs-number")
        return isinstance(a, bool) and isinstance(b, bool) and a == b
    if a is None or b is None:
        return a is None and b is None
    if is_num(a) or is_num(b):
        return is_num(a) and is_num(b) and a == b
    if isinstance(a, str) or isinstance(b, str):
        return isinstance(a, str) and isinstance(b, str) and a == b
    if isinstance(a, list) or isinstance(b, list):
        if not (isinstance(a, list) and isinstance(b, list)):
            return False
        if ctx is not None:
            ctx.events.add("eq.array")
        return len(a) == len(b) and all(deep_eq(x, y, ctx) for x, y in zip(a, b))
    if isinstance(a, dict) and isinstance(b, dict):
        if ctx is not None:
            ctx.events.add("eq.object")
        return set(a) == set(b) and all(deep_eq(a[k], b[k], ctx) for k in a)
    return False


def less(a, b, ctx=None):
    if is_num(a) and is_num(b):
        return a < b
    if isinstance(a, str) and isinstance(b, str):
        return a < b  # Python compares by code point = Unicode scalar value order
    if ctx is not None:
        ctx.events.add("lt.mixed-or-unordered")
    return False


def compare(op, a, b, ctx=None):
    if op == "==":
        return deep_eq(a, b, ctx)
    if op in ("!=", "<>"):
        return not deep_eq(a, b, ctx)
    if op == "<":
        return less(a, b, ctx)
    if op == ">":
        return less(b, a, ctx)
    if op == "<=":
        return less(a, b, ctx) or deep_eq(a, b, ctx)
    if op == ">=":
        return less(b, a, ctx) or deep_eq(a, b, ctx)
    raise ValueError(op)


# ---------------------------------------------------------------- selectors


def norm_slice(start, stop, step, length):
    """RFC 9535 2.3.4.2.2 pseudo-code, literally."""
    if step is None:
        step = 1
    if step == 0:
        return []

    def normalize(i):
        return i if i >= 0 else length + i

    if step >= 0:
        d_start, d_end = 0, length
    else:
        d_start, d_end = length - 1, -length - 1
    s = d_start if start is None else start
    e = d_end if stop is None else stop
    n_start, n_end = normalize(s), normalize(e)
    if step >= 0:
        lower = min(max(n_start, 0), length)
        upper = min(max(n_end, 0), length)
    else:
        upper = min(max(n_start, -1), length - 1)
        lower = min(max(n_end, -1), length - 1)
    out = []
    if step > 0:
        i = lower
        while i < upper:
            out.append(i)
            i += step
    else:
        i = upper
        while lower < i:
            out.append(i)
            i += step
    return out


def children(value):
    if isinstance(value, dict):
        return list(value.items())
    if isinstance(value, list):
        return list(enumerate(value))
    return []


def apply_selector(sel, parts, value, ctx):
    k = sel[0]
    if k == "n":
        if isinstance(value, dict) and sel[1] in value:
            yield parts + (sel[1],), value[sel[1]]
    elif k == "i":
        i = sel[1]
        if isinstance(value, list):
            j = i if i >= 0 else len(value) + i
            if 0 <= j < len(value):
                yield parts + (j,), value[j]
        elif isinstance(value, dict) and ctx.index_on_object:
            key = str(i)
            if key in value:
                ctx.events.add("index.on-object")
                yield parts + (key,), value[key]
    elif k == "s":
        if isinstance(value, list):
            for j in norm_slice(sel[1], sel[2], sel[3], len(value)):
                yield parts + (j,), value[j]
        elif isinstance(value, str) and "slice-on-string" in ctx.quirks:
            for j in norm_slice(sel[1], sel[2], sel[3], len(value)):
                yield parts + (j,), value[j]
        elif isinstance(value, str):
            ctx.events.add("slice.on-string")
    elif k == "w":
        for key, v in children(value):
            yield parts + (key,), v
    elif k == "f":
        for key, v in children(value):
            if truth(sel[1], v, key, ctx):
                yield parts + (key,), v
    elif k == "k":
        if isinstance(value, dict):
            for key in value:
                yield parts + ("~" + key,), key
    else:
        raise ValueError("selector %r" % (sel,))


def descend(parts, value):
    yield parts, value
    for key, v in children(value):
        yield from descend(parts + (key,), v)


def apply_segment(seg, nodelist, ctx):
    out = []
    if seg[0] == "c":
        for parts, value in nodelist:
            for sel in seg[1]:
                out.extend(apply_selector(sel, parts, value, ctx))
    elif seg[0] == "d":
        for parts, value in nodelist:
            for p2, v2 in descend(parts, value):
                for sel in seg[1]:
                    out.extend(apply_selector(sel, p2, v2, ctx))
    else:
        raise ValueError("segment %r" % (seg,))
    return out


def run_query(q, start_value, ctx):
    nl = [((), start_value)]
    for seg in q[2]:
        nl = apply_segment(seg, nl, ctx)
    return nl


def evaluate(q, doc, extra=None, quirks=(), index_on_object=True, ctx=None):
    """Top-level: q is ["q", "$"|"^", segs].  Returns [(parts, value)]."""
    if ctx is None:
        ctx = Ctx(doc, extra, quirks, index_on_object)
    start = [doc] if q[1] == "^" else doc
    return run_query(q, start, ctx)


# ---------------------------------------------------------------- filter expressions


def sub_query(q, current, ctx):
    root = q[1]
    if root == "@":
        return run_query(q, current, ctx)
    if root == "$":
        return run_query(q, ctx.root, ctx)
    if root == "^":
        return run_query(q, [ctx.root], ctx)
    if root == "_":
        return run_query(q, ctx.extra, ctx)
    raise ValueError("root %r" % (root,))


def is_singular(q):
    for seg in q[2]:
        if seg[0] != "c" or len(seg[1]) != 1 or seg[1][0][0] not in ("n", "i"):
            return False
    return True


def value_of(e, current, key, ctx):
    """Evaluate a comparable / ValueType argument to a JSON value or NOTHING."""
    k = e[0]
    if k == "lit":
        return e[1]
    if k == "q":
        nl = sub_query(e, current, ctx)
        if len(nl) == 1:
            return nl[0][1]
        if len(nl) == 0:
            ctx.events.add("cmp.nothing")
            return NOTHING
        # only reachable for non-singular queries (extension use); treat as the list of values
        return [v for _, v in nl]
    if k == "call":
        return call(e, current, key, ctx)
    if k == "key":
        return key if key is not None else NOTHING
    if k == "undef":
        return NOTHING
    if k == "list":
        return list(e[1])
    if k == "par":
        return value_of(e[1], current, key, ctx)
    raise ValueError("not a comparable: %r" % (e,))


def call(e, current, key, ctx):
    fn, args = e[1], e[2]
    ptypes, _rt = FUNCS[fn]
    vals = []
    for t, a in zip(ptypes, args):
        if t == "V":
            vals.append(value_of(a, current, key, ctx))
        elif t == "N":
            vals.append(sub_query(a, current, ctx) if a[0] == "q" else a)
        else:
            vals.append(truth(a, current, key, ctx))
    if fn == "length":
        v = vals[0]
        if isinstance(v, (str, list, dict)):
            return len(v)
        ctx.events.add("length.nothing")
        return NOTHING
    if fn == "count":
        return len(vals[0])
    if fn == "value":
        nl = vals[0]
        return nl[0][1] if len(nl) == 1 else NOTHING
    if fn in ("match", "search"):
        s, p = vals
        if not (isinstance(s, str) and isinstance(p, str)):
            ctx.events.add("regex.non-string")
            return False
        try:
            rx = re.compile(p)
        except re.error:
            return False
        if "." in p and "\r" in s:
            # I-Regexp's `.` excludes CR as well as LF, Python's only LF: outside the shared dialect
            ctx.events.add("regex.unjudged")
        return bool(rx.fullmatch(s) if fn == "match" else rx.search(s))
    raise ValueError(fn)


def _loose_eq(a, b):
    try:
        return a == b
    except Exception:  # noqa: BLE001
        return False


def membership(needle, hay, ctx):
    """`needle in hay` as documented: arrays (by equality), strings (substring), object keys.

    Cases the documentation leaves open are tagged `membership.unjudged` (the caller then does not
    judge the case): a non-string looked up in a string, a non-string looked up among object keys,
    and an array haystack where strict JSON equality and Python's == disagree (true vs 1, nested).
    """
    if needle is NOTHING or hay is NOTHING:
        ctx.events.add("membership.unjudged")
        return False
    if isinstance(hay, list):
        strict = any(deep_eq(needle, x) for x in hay)
        loose = any(_loose_eq(needle, x) for x in hay)
        if strict != loose:
            ctx.events.add("membership.unjudged")
        return strict
    if isinstance(hay, str):
        if not isinstance(needle, str):
            ctx.events.add("membership.unjudged")
            return False
        return needle in hay
    if isinstance(hay, dict):
        if not isinstance(needle, str):
            ctx.events.add("membership.unjudged")
            return False
        return needle in hay
    return False


def truth(e, current, key, ctx):
    k = e[0]
    if k == "or":
        return truth(e[1], current, key, ctx) or truth(e[2], current, key, ctx)
    if k == "and":
        return truth(e[1], current, key, ctx) and truth(e[2], current, key, ctx)
    if k == "not":
        return not truth(e[1], current, key, ctx)
    if k == "par":
        return truth(e[1], current, key, ctx)
    if k == "test":
        nl = sub_query(e[1], current, ctx)
        if nl and any(not v and v is not None for _, v in nl):
            ctx.events.add("test.falsy-value")
        if e[1][1] == "@" and not e[1][2] and not isinstance(current, (list, dict)):
            ctx.events.add("test.bare-current.on-primitive")
        return len(nl) > 0
    if k == "q":  # a bare query used as a test
        return len(sub_query(e, current, ctx)) > 0
    if k == "cmp":
        a = value_of(e[2], current, key, ctx)
        b = value_of(e[3], current, key, ctx)
        return compare(e[1], a, b, ctx)
    if k == "call":
        r = call(e, current, key, ctx)
        if FUNCS[e[1]][1] == "L":
            return bool(r)
        raise ValueError("ValueType function used as test: %r" % (e,))
    if k == "in":
        return membership(value_of(e[1], current, key, ctx), value_of(e[2], current, key, ctx), ctx)
    if k == "has":
        return membership(value_of(e[2], current, key, ctx), value_of(e[1], current, key, ctx), ctx)
    if k == "re":
        s = value_of(e[1], current, key, ctx)
        if not isinstance(s, str):
            return False
        flags = 0
        for ch in e[3]:
            flags |= RE_FLAGS[ch]
        return bool(re.compile(e[2], flags).fullmatch(s))
    if k == "lit":
        # extension: the library tolerates literals as basic expressions (docs/syntax.md)
        v = e[1]
        return True if v is None else bool(v)
    raise ValueError("expr %r" % (e,))
