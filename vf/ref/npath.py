"""RFC 9535 section 2.7 normalized paths: recogniser and canonical printer.  Never imports jsonpath."""
from __future__ import annotations

import re

_NAME_CHAR = (
    "(?:[\\x20-\\x26\\x28-\\x5b\\x5d-\\ud7ff\\ue000-\\U0010ffff]"
    r"|\\[bfnrt'\\]"
    r"|\\u00(?:0[0-7]|0b|0[ef]|1[0-9a-f]))"
)
_SEG = r"\[(?:'" + _NAME_CHAR + r"*'|0|[1-9][0-9]*)\]"
_NPATH = re.compile(r"\$(?:" + _SEG + r")*\Z")

_NAMED = {"\b": "\\b", "\f": "\\f", "\n": "\\n", "\r": "\\r", "\t": "\\t", "'": "\\'", "\\": "\\\\"}


def is_normalized(path: str) -> bool:
    return bool(_NPATH.match(path))


def print_name(name: str) -> str:
    out = []
    for ch in name:
        if ch in _NAMED:
            out.append(_NAMED[ch])
        elif ord(ch) < 0x20:
            out.append("\\u%04x" % ord(ch))
        else:
            out.append(ch)
    return "'" + "".join(out) + "'"


def print_path(parts) -> str:
    out = ["$"]
    for p in parts:
        if isinstance(p, bool):
            raise TypeError("bool part")
        if isinstance(p, int):
            if p < 0:
                raise ValueError("negative index in parts")
            out.append("[%d]" % p)
        else:
            out.append("[" + print_name(p) + "]")
    return "".join(out)


def selftest():
    errs = []
    good = ["$", "$['a']", "$[1]", "$[0]", "$['a']['b'][1]", "$['\\u000b']", "$['\\\\']", "$['\\'']", "$['\"']", "$['é']", "$['\x7f']", "$['\\u001f']"]
    bad = ["", "$.a", "$[01]", "$[-1]", "$[\"a\"]", "$['\\u000B']", "$['\\u0041']", "$['\\/']", "$['\x01']", "$['a'", "$['''']", "$[ 'a']",
           "$['\\u0008']", "$['\\u000a']", "$['a']\n"]
    for g in good:
        if not is_normalized(g):
            errs.append("npath should accept %r" % g)
    for b in bad:
        if is_normalized(b):
            errs.append("npath should reject %r" % b)
    if print_path(("a", 0, "\x0b", "'", "\\", "\n")) != "$['a'][0]['\\u000b']['\\'']['\\\\']['\\n']":
        errs.append("print_path: %r" % print_path(("a", 0, "\x0b", "'", "\\", "\n")))
    return errs
