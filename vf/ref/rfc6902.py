"""Reference RFC 6902 JSON Patch application on deep copies.  Never imports jsonpath."""
from __future__ import annotations

import copy

from ..strict import jeq
from . import rfc6901 as P


class PatchFail(Exception):
    def __init__(self, kind, msg=""):
        super().__init__(msg)
        self.kind = kind  # "test" | "other"


def _get(doc, tokens):
    kind, v = P.resolve(doc, tokens)
    if kind != P.OK:
        raise PatchFail("other", "cannot resolve %r: %s" % (tokens, v))
    return v


def _add(doc, tokens, value):
    if not tokens:
        return value
    parent = _get(doc, tokens[:-1])
    last = tokens[-1]
    if isinstance(parent, dict):
        parent[last] = value
    elif isinstance(parent, list):
        if last == "-":
            parent.append(value)
        elif P.is_canonical_index(last) and int(last) <= len(parent):
            parent.insert(int(last), value)
        else:
            raise PatchFail("other", "bad array index %r" % last)
    else:
        raise PatchFail("other", "parent is a scalar")
    return doc


def _remove(doc, tokens):
    if not tokens:
        raise PatchFail("other", "cannot remove the root")
    parent = _get(doc, tokens[:-1])
    last = tokens[-1]
    if isinstance(parent, dict):
        if last not in parent:
            raise PatchFail("other", "no such member")
        return parent.pop(last)
    if isinstance(parent, list):
        if P.is_canonical_index(last) and int(last) < len(parent):
            return parent.pop(int(last))
        raise PatchFail("other", "bad array index %r" % last)
    raise PatchFail("other", "parent is a scalar")


def apply_op(doc, op):
    name = op["op"]
    path = P.parse(op["path"])
    if name == "add":
        return _add(doc, path, copy.deepcopy(op["value"]))
    if name == "remove":
        _remove(doc, path)
        return doc
    if name == "replace":
        if not path:
            return copy.deepcopy(op["value"])
        _get(doc, path)
        parent = _get(doc, path[:-1])
        if isinstance(parent, dict):
            parent[path[-1]] = copy.deepcopy(op["value"])
        else:
            parent[int(path[-1])] = copy.deepcopy(op["value"])
        return doc
    if name == "move":
        src = P.parse(op["from"])
        if len(src) < len(path) and path[: len(src)] == src:
            raise PatchFail("other", "move into own child")
        _get(doc, src)
        if src == path:
            return doc
        v = _remove(doc, src) if src else doc
        if not src:
            raise PatchFail("other", "move root")  # unreachable: root is a prefix of every other path
        return _add(doc, path, v)
    if name == "copy":
        src = P.parse(op["from"])
        v = copy.deepcopy(_get(doc, src))
        return _add(doc, path, v)
    if name == "test":
        v = _get(doc, path)
        if not jeq(v, op["value"]):
            raise PatchFail("test", "test failed")
        return doc
    raise PatchFail("other", "unknown op")


def apply(doc, ops):
    """-> ("ok", new_doc) | ("err", op_index, kind)"""
    doc = copy.deepcopy(doc)
    for i, op in enumerate(ops):
        try:
            doc = apply_op(doc, op)
        except PatchFail as e:
            return ("err", i, e.kind)
    return ("ok", doc)


def selftest():
    errs = []

    def ok(name, doc, ops, want):
        r = apply(doc, ops)
        if r[0] != "ok" or not jeq(r[1], want):
            errs.append("RFC 6902 %s: %r" % (name, r))

    def bad(name, doc, ops):
        r = apply(doc, ops)
        if r[0] != "err":
            errs.append("RFC 6902 %s should fail: %r" % (name, r))

    ok("A.1", {"foo": "bar"}, [{"op": "add", "path": "/baz", "value": "qux"}], {"baz": "qux", "foo": "bar"})
    ok("A.2", {"foo": ["bar", "baz"]}, [{"op": "add", "path": "/foo/1", "value": "qux"}], {"foo": ["bar", "qux", "baz"]})
    ok("A.3", {"baz": "qux", "foo": "bar"}, [{"op": "remove", "path": "/baz"}], {"foo": "bar"})
    ok("A.4", {"foo": ["bar", "qux", "baz"]}, [{"op": "remove", "path": "/foo/1"}], {"foo": ["bar", "baz"]})
    ok("A.5", {"baz": "qux", "foo": "bar"}, [{"op": "replace", "path": "/baz", "value": "boo"}], {"baz": "boo", "foo": "bar"})
    ok("A.6", {"foo": {"bar": "baz", "waldo": "fred"}, "qux": {"corge": "grault"}},
       [{"op": "move", "from": "/foo/waldo", "path": "/qux/thud"}],
       {"foo": {"bar": "baz"}, "qux": {"corge": "grault", "thud": "fred"}})
    ok("A.7", {"foo": ["all", "grass", "cows", "eat"]}, [{"op": "move", "from": "/foo/1", "path": "/foo/3"}],
       {"foo": ["all", "cows", "eat", "grass"]})
    ok("A.8", {"baz": "qux", "foo": ["a", 2, "c"]},
       [{"op": "test", "path": "/baz", "value": "qux"}, {"op": "test", "path": "/foo/1", "value": 2}],
       {"baz": "qux", "foo": ["a", 2, "c"]})
    bad("A.9", {"baz": "qux"}, [{"op": "test", "path": "/baz", "value": "bar"}])
    ok("A.10", {"foo": "bar"}, [{"op": "add", "path": "/child", "value": {"grandchild": {}}}],
       {"foo": "bar", "child": {"grandchild": {}}})
    bad("A.12", {"foo": "bar"}, [{"op": "add", "path": "/baz/bat", "value": "qux"}])
    ok("A.14", {"/": 9, "~1": 10}, [{"op": "test", "path": "/~01", "value": 10}], {"/": 9, "~1": 10})
    bad("A.15", {"/": 9, "~1": 10}, [{"op": "test", "path": "/~01", "value": "10"}])
    ok("A.16", {"foo": ["bar"]}, [{"op": "add", "path": "/foo/-", "value": ["abc", "def"]}], {"foo": ["bar", ["abc", "def"]]})
    return errs
