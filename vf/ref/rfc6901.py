"""Reference RFC 6901 JSON Pointer: encode / parse / resolve.  Never imports jsonpath."""
from __future__ import annotations

import re

OK, ERR, EXT = "ok", "err", "ext"
MAX_INDEX = 2**53 - 1
_CANON = re.compile(r"0|[1-9][0-9]*")  # ASCII digits only
_NEG = re.compile(r"-[0-9]+")


def escape(token: str) -> str:
    return token.replace("~", "~0").replace("/", "~1")


def unescape(ref: str) -> str:
    return ref.replace("~1", "/").replace("~0", "~")


def encode(tokens) -> str:
    return "".join("/" + escape(t) for t in tokens)


def valid(text: str) -> bool:
    if text == "":
        return True
    if not text.startswith("/"):
        return False
    return not re.search(r"~(?![01])", text)


def parse(text: str):
    if not valid(text):
        raise ValueError("not an RFC 6901 pointer: %r" % text)
    if text == "":
        return []
    return [unescape(p) for p in text[1:].split("/")]


def is_canonical_index(tok: str) -> bool:
    return bool(_CANON.fullmatch(tok)) and tok.isascii()  # fullmatch: `$` would accept "5\n"


def step(value, tok: str):
    """-> (OK, child) | (ERR, reason) | (EXT, reason)"""
    if isinstance(value, dict):
        if tok in value:
            return OK, value[tok]
        if tok[:1] in ("#", "~"):
            return EXT, "key/index pointer token on object"
        return ERR, "no such member"
    if isinstance(value, list):
        if is_canonical_index(tok):
            i = int(tok)
            if i > MAX_INDEX:
                return EXT, "integer beyond the index limit"
            if i < len(value):
                return OK, value[i]
            return ERR, "index out of range"
        if _NEG.fullmatch(tok):
            return EXT, "negative index"
        if tok[:1] == "#":
            return EXT, "index pointer token on array"
        return ERR, "not an array index"
    return ERR, "token applied to a scalar"


def resolve(doc, tokens):
    cur = doc
    for t in tokens:
        kind, cur = step(cur, t)
        if kind != OK:
            return kind, cur
    return OK, cur


def selftest():
    errs = []
    doc = {"foo": ["bar", "baz"], "": 0, "a/b": 1, "c%d": 2, "e^f": 3, "g|h": 4, "i\\j": 5, 'k"l': 6, " ": 7, "m~n": 8}
    table = {"": doc, "/foo": ["bar", "baz"], "/foo/0": "bar", "/": 0, "/a~1b": 1, "/c%d": 2, "/e^f": 3, "/g|h": 4,
             "/i\\j": 5, '/k"l': 6, "/ ": 7, "/m~0n": 8}
    for text, want in table.items():
        kind, got = resolve(doc, parse(text))
        if kind != OK or got != want:
            errs.append("RFC 6901 section 5: %r -> %r %r" % (text, kind, got))
        if encode(parse(text)) != text:
            errs.append("encode(parse(%r)) = %r" % (text, encode(parse(text))))
    for t in ("5\n", "\n5", "5 ", "05", "+5", "５"):
        if is_canonical_index(t):
            errs.append("%r is not a canonical index" % t)
    if parse("/~01") != ["~1"]:
        errs.append("~01 must decode to ~1")
    return errs
