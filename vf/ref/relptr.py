"""Reference for draft-hha-relative-json-pointer application.  Never imports jsonpath."""
from __future__ import annotations

import re

from . import rfc6901 as P

_REL = re.compile(r"(0|[1-9][0-9]*)([+-](?:[1-9][0-9]*))?(#|(?:/.*)?)", re.S)


class RelError(Exception):
    pass


def parse(text):
    """-> (steps, offset, suffix) where suffix is '#' or a list of tokens; ValueError if malformed"""
    m = _REL.fullmatch(text)
    if not m:
        raise ValueError("not a relative JSON pointer: %r" % text)
    steps = int(m.group(1))
    off = int(m.group(2)) if m.group(2) else 0
    suf = m.group(3)
    if suf == "#":
        return steps, off, "#"
    if not P.valid(suf):
        raise ValueError("bad pointer suffix")
    return steps, off, P.parse(suf)


def apply(base_tokens, steps, offset, suffix):
    """-> ("ptr", tokens) | ("key", tokens)  (tokens of the location whose key is denoted)
       raises RelError for the applications the draft forbids;
       returns ("unjudged", reason) when an offset meets a non-index token."""
    if steps > len(base_tokens):
        raise RelError("more steps than tokens")
    toks = list(base_tokens[: len(base_tokens) - steps])
    if offset:
        if not toks:
            return ("unjudged", "offset at the root")
        last = toks[-1]
        if not P.is_canonical_index(last):
            return ("unjudged", "offset on a non-index token")
        n = int(last) + offset
        if n < 0:
            raise RelError("negative index")
        toks[-1] = str(n)
    if suffix == "#":
        if not toks:
            raise RelError("# at the root")
        return ("key", toks)
    return ("ptr", toks + list(suffix))


def selftest():
    errs = []
    # the draft's example table: base /foo/1 and /highly/nested
    cases = [
        (["foo", "1"], "0", ("ptr", ["foo", "1"])),
        (["foo", "1"], "1/0", ("ptr", ["foo", "0"])),
        (["foo", "1"], "0-1", ("ptr", ["foo", "0"])),
        (["foo", "1"], "2/highly/nested/objects", ("ptr", ["highly", "nested", "objects"])),
        (["foo", "1"], "0#", ("key", ["foo", "1"])),
        (["foo", "1"], "0-1#", ("key", ["foo", "0"])),
        (["foo", "1"], "1#", ("key", ["foo"])),
        (["highly", "nested"], "0/objects", ("ptr", ["highly", "nested", "objects"])),
        (["highly", "nested"], "1/nested/objects", ("ptr", ["highly", "nested", "objects"])),
        (["highly", "nested"], "2/foo/0", ("ptr", ["foo", "0"])),
        (["highly", "nested"], "0#", ("key", ["highly", "nested"])),
        (["highly", "nested"], "1#", ("key", ["highly"])),
    ]
    for base, text, want in cases:
        got = apply(base, *parse(text))
        if got != want:
            errs.append("relative pointer %r on %r: %r" % (text, base, got))
    for bad in ["", "-1", "01", "0+0", "0-", "0+01", "a", "0x", "1#/a", "0#\n", "0\n"]:
        try:
            parse(bad)
            errs.append("relative pointer %r should be malformed" % bad)
        except ValueError:
            pass
    return errs
