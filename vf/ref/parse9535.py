"""Independent parser for RFC 9535 query text (the ABNF of sections 2.1-2.5, transcribed by hand) producing the
JSON AST of vf.ref.rfc9535.  Never imports jsonpath.

parse(text) -> (ast, flags)      or raises RefSyntaxError

The grammar is applied strictly (no leading / trailing blank space, blank space only where `S` stands in the ABNF,
case-sensitive keywords, lower-case escape letters ...) with a small number of *named relaxations*, each of which is
reported in `flags` instead of being a syntax error, so that a caller can tell "would be a valid query but for
exactly this" apart from "some other text":

  gate.leading-zero      an index spelled with a leading zero (01, -01, 007)
  gate.empty-list        a bracketed selection with no selector: []
  gate.trailing-comma    a bracketed selection ending in a comma: [1,]
  gate.int-range         an index / slice bound outside +-(2**53-1)
  gate.literal-test      (not a flag: a bare literal in test position is kept in the AST as ["lit", v]; the typing
                          checker reports it)
  open.slice-leading-zero  a slice bound spelled with a leading zero (the ABNF refuses it; the listed refusal names only
                          indices, and the library tolerates it)
  open.neg-zero          -0 as an index or slice bound (the ABNF refuses it; not one of the listed refusals)
  open.singular-space    blank space inside the brackets of a query used as a comparison operand (the ABNF of
                          singular-query has none there)
  open.number            a number literal that is not finite as a double or is an integer beyond +-(2**53-1)
  open.reserved-name     a dot-shorthand name that is one of the library's reserved words
  open.keyword-call      true( / false( / null(

`open.*` flags mean: this reference does not judge the text.
"""
from __future__ import annotations

INT_MAX = 2 ** 53 - 1
BLANK = " \t\n\r"
RESERVED = {"true", "false", "null", "and", "or", "not", "in", "contains", "nil", "none", "undefined", "missing",
            "True", "False", "None", "Nil", "Null", "NULL", "TRUE", "FALSE"}
CMP_OPS = ["==", "!=", "<=", ">=", "<", ">"]


class RefSyntaxError(Exception):
    pass


def _is_name_first(ch):
    o = ord(ch)
    return ch == "_" or ("a" <= ch <= "z") or ("A" <= ch <= "Z") or (0x80 <= o <= 0xD7FF) or (0xE000 <= o <= 0x10FFFF)


def _is_name_char(ch):
    return _is_name_first(ch) or ("0" <= ch <= "9")


def _is_digit(ch):
    return "0" <= ch <= "9"


_HEX = "0123456789abcdefABCDEF"


class P:
    def __init__(self, text):
        self.t = text
        self.i = 0
        self.flags = set()
        self.depth = 0
        self.pending_lz = False

    # ---------------------------------------------------------------- helpers
    def peek(self, n=1):
        return self.t[self.i:self.i + n]

    def eof(self):
        return self.i >= len(self.t)

    def err(self, what):
        raise RefSyntaxError("%s at %d in %r" % (what, self.i, self.t[:80]))

    def S(self):
        while self.i < len(self.t) and self.t[self.i] in BLANK:
            self.i += 1

    def eat(self, s):
        if self.t.startswith(s, self.i):
            self.i += len(s)
            return True
        return False

    def expect(self, s):
        if not self.eat(s):
            self.err("expected %r" % s)

    # ---------------------------------------------------------------- query
    def query(self, root):
        self.expect(root)
        return ["q", root, self.segments()]

    def segments(self):
        segs = []
        while True:
            save = self.i
            self.S()
            seg = self.segment()
            if seg is None:
                self.i = save
                return segs
            segs.append(seg)

    def segment(self):
        if self.peek(2) == "..":
            self.i += 2
            if self.peek() == "[":
                return ["d", self.bracketed()]
            if self.eat("*"):
                return ["d", [["w"]]]
            return ["d", [["n", self.shorthand()]]]
        if self.peek() == "[":
            return ["c", self.bracketed()]
        if self.peek() == ".":
            self.i += 1
            if self.eat("*"):
                return ["c", [["w"]]]
            return ["c", [["n", self.shorthand()]]]
        return None

    def shorthand(self):
        j = self.i
        if j >= len(self.t) or not _is_name_first(self.t[j]):
            self.err("member-name-shorthand")
        j += 1
        while j < len(self.t) and _is_name_char(self.t[j]):
            j += 1
        name = self.t[self.i:j]
        self.i = j
        if name in RESERVED:
            self.flags.add("open.reserved-name")
        return name

    def bracketed(self):
        self.expect("[")
        self.S()
        sels = []
        if self.eat("]"):
            self.flags.add("gate.empty-list")
            return sels
        while True:
            sels.append(self.selector())
            self.S()
            if self.eat("]"):
                return sels
            self.expect(",")
            self.S()
            if self.eat("]"):
                self.flags.add("gate.trailing-comma")
                return sels

    def selector(self):
        ch = self.peek()
        if ch in ("'", '"'):
            return ["n", self.string()]
        if ch == "*":
            self.i += 1
            return ["w"]
        if ch == "?":
            self.i += 1
            self.S()
            self.depth += 1
            if self.depth > 40:
                self.err("too deep")
            e = self.logical_or()
            self.depth -= 1
            return ["f", e]
        return self.index_or_slice()

    def int_token(self, bound=False):
        """[-]digits, with leading zeros tolerated and flagged; None if no integer here."""
        j = self.i
        neg = False
        if j < len(self.t) and self.t[j] == "-":
            neg = True
            j += 1
        k = j
        while k < len(self.t) and _is_digit(self.t[k]):
            k += 1
        if k == j:
            return None
        digits = self.t[j:k]
        if len(digits) > 400:
            self.err("absurd integer")
        self.i = k
        if len(digits) > 1 and digits[0] == "0":
            self.pending_lz = True
        elif neg and digits == "0":
            self.flags.add("open.neg-zero")
        v = int(digits)
        v = -v if neg else v
        if abs(v) > INT_MAX:
            self.flags.add("gate.int-range")
        return v

    def index_or_slice(self):
        self.pending_lz = False
        start = self.int_token()
        save = self.i
        self.S()
        if not self.eat(":"):
            self.i = save
            if start is None:
                self.err("selector")
            if self.pending_lz:
                self.flags.add("gate.leading-zero")
            return ["i", start]
        # slice-selector = [start S] ":" S [end S] [":" [S step]]
        self.S()
        stop = self.int_token()
        step = None
        save = self.i
        if stop is not None:
            self.S()
        if self.eat(":"):
            save2 = self.i
            self.S()
            step = self.int_token()
            if step is None:
                self.i = save2
        else:
            self.i = save
        if self.pending_lz:
            self.flags.add("open.slice-leading-zero")
        return ["s", start, stop, step]

    # ---------------------------------------------------------------- literals
    def string(self):
        q = self.t[self.i]
        self.i += 1
        out = []
        t = self.t
        while True:
            if self.i >= len(t):
                self.err("unterminated string")
            ch = t[self.i]
            o = ord(ch)
            if ch == q:
                self.i += 1
                return "".join(out)
            if ch == "\\":
                self.i += 1
                if self.i >= len(t):
                    self.err("dangling escape")
                e = t[self.i]
                self.i += 1
                if e == q:
                    out.append(q)
                elif e in "bfnrt":
                    out.append({"b": "\b", "f": "\f", "n": "\n", "r": "\r", "t": "\t"}[e])
                elif e == "/" or e == "\\":
                    out.append(e)
                elif e == "u":
                    out.append(self.hexchar())
                else:
                    self.err("bad escape")
                continue
            if o < 0x20 or 0xD800 <= o <= 0xDFFF:
                self.err("character not allowed in string literal")
            out.append(ch)
            self.i += 1

    def hex4(self):
        h = self.t[self.i:self.i + 4]
        if len(h) != 4 or any(c not in _HEX for c in h):
            self.err("bad \\u escape")
        self.i += 4
        return int(h, 16)

    def hexchar(self):
        cp = self.hex4()
        if 0xD800 <= cp <= 0xDBFF:
            if self.t[self.i:self.i + 2] != "\\u":
                self.err("lone high surrogate")
            self.i += 2
            lo = self.hex4()
            if not 0xDC00 <= lo <= 0xDFFF:
                self.err("bad low surrogate")
            return chr(0x10000 + ((cp - 0xD800) << 10) + (lo - 0xDC00))
        if 0xDC00 <= cp <= 0xDFFF:
            self.err("lone low surrogate")
        return chr(cp)

    def number(self):
        """number = (int / "-0") [frac] [exp]; None if no number starts here."""
        t = self.t
        j = self.i
        if j < len(t) and t[j] == "-":
            j += 1
        k = j
        while k < len(t) and _is_digit(t[k]):
            k += 1
        if k == j:
            return None
        digits = t[j:k]
        if len(digits) > 1 and digits[0] == "0":
            self.err("number with leading zero")
        is_float = False
        if k < len(t) and t[k] == ".":
            m = k + 1
            while m < len(t) and _is_digit(t[m]):
                m += 1
            if m == k + 1:
                self.err("frac without digits")
            k = m
            is_float = True
        if k < len(t) and t[k] in "eE":
            m = k + 1
            if m < len(t) and t[m] in "+-":
                m += 1
            n = m
            while n < len(t) and _is_digit(t[n]):
                n += 1
            if n == m:
                self.err("exp without digits")
            k = n
            is_float = True
        lit = t[self.i:k]
        if len(lit) > 400:
            self.err("absurd number")
        self.i = k
        if is_float:
            try:
                v = float(lit)
            except (ValueError, OverflowError):
                self.flags.add("open.number")
                return 0
            if v != v or v in (float("inf"), float("-inf")):
                self.flags.add("open.number")
                return 0
            if v == int(v) and abs(v) > INT_MAX:
                self.flags.add("open.number")
            return v
        v = int(lit)
        if abs(v) > INT_MAX:
            self.flags.add("open.number")
        return v

    def literal(self):
        """-> ["lit", v] or None"""
        ch = self.peek()
        if ch in ("'", '"'):
            return ["lit", self.string()]
        if ch == "-" or (ch and _is_digit(ch)):
            v = self.number()
            if v is None:
                self.err("number")
            return ["lit", v]
        for kw, v in (("true", True), ("false", False), ("null", None)):
            if self.t.startswith(kw, self.i):
                nxt = self.t[self.i + len(kw):self.i + len(kw) + 1]
                if nxt == "(":
                    self.flags.add("open.keyword-call")
                if nxt and (_is_name_char(nxt)):
                    return None  # a longer function name such as `nullish(`
                self.i += len(kw)
                return ["lit", v]
        return None

    # ---------------------------------------------------------------- filter expressions
    def logical_or(self):
        left = self.logical_and()
        while True:
            save = self.i
            self.S()
            if self.eat("||"):
                self.S()
                right = self.logical_and()
                left = ["or", left, right]
            else:
                self.i = save
                return left

    def logical_and(self):
        left = self.basic()
        while True:
            save = self.i
            self.S()
            if self.eat("&&"):
                self.S()
                right = self.basic()
                left = ["and", left, right]
            else:
                self.i = save
                return left

    def function_name(self):
        j = self.i
        t = self.t
        if j < len(t) and "a" <= t[j] <= "z":
            k = j + 1
            while k < len(t) and (("a" <= t[k] <= "z") or t[k] == "_" or _is_digit(t[k])):
                k += 1
            if k < len(t) and t[k] == "(":
                return t[j:k], k
        return None, j

    def function_expr(self):
        name, k = self.function_name()
        if name is None:
            return None
        self.i = k + 1
        self.S()
        args = []
        if self.eat(")"):
            return ["call", name, args]
        while True:
            args.append(self.argument())
            self.S()
            if self.eat(")"):
                return ["call", name, args]
            self.expect(",")
            self.S()

    def argument(self):
        """function-argument = literal / filter-query / logical-expr / function-expr.
        Parsed as a logical-expr in which a bare comparable may stand; a bare query test becomes the query itself."""
        self.depth += 1
        if self.depth > 40:
            self.err("too deep")
        e = self.logical_or()
        self.depth -= 1
        if e[0] == "test":
            return e[1]
        return e

    def comparable(self):
        """literal / query / function-expr (any query; singularity is the typing checker's business)."""
        lit = self.literal()
        if lit is not None:
            return lit, None
        if self.peek() in ("@", "$"):
            start = self.i
            q = self.query(self.peek())
            return q, (start, self.i)
        f = self.function_expr()
        if f is not None:
            return f, None
        self.err("basic expression")

    def _singular_spelling_ok(self, span):
        """rel-singular-query / abs-singular-query allow blank space between segments but none inside brackets."""
        s = self.t[span[0]:span[1]]
        depth = 0
        quote = None
        i = 0
        while i < len(s):
            ch = s[i]
            if quote:
                if ch == "\\":
                    i += 1
                elif ch == quote:
                    quote = None
            elif ch in "'\"":
                quote = ch
            elif ch == "[":
                depth += 1
            elif ch == "]":
                depth -= 1
            elif ch in BLANK and depth > 0:
                return False
            i += 1
        return True

    def basic(self):
        neg = False
        if self.peek() == "!" and self.peek(2) != "!=":
            self.i += 1
            neg = True
            self.S()
        if self.peek() == "(":
            self.i += 1
            self.S()
            self.depth += 1
            if self.depth > 40:
                self.err("too deep")
            e = self.logical_or()
            self.depth -= 1
            self.S()
            self.expect(")")
            e = ["par", e]
            return ["not", e] if neg else e
        left, lspan = self.comparable()
        save = self.i
        self.S()
        op = None
        for o in CMP_OPS:
            if self.eat(o):
                op = o
                break
        if op is None:
            self.i = save
            if left[0] == "q":
                e = ["test", left]
            else:
                e = left  # function call or bare literal in test position
            return ["not", e] if neg else e
        if neg:
            self.err("! applied to a comparison without parentheses")
        self.S()
        right, rspan = self.comparable()
        for node, span in ((left, lspan), (right, rspan)):
            if span is not None and not self._singular_spelling_ok(span):
                self.flags.add("open.singular-space")
        return ["cmp", op, left, right]


def parse(text):
    if not isinstance(text, str):
        raise RefSyntaxError("not text")
    p = P(text)
    try:
        q = p.query("$")
    except RecursionError:
        raise RefSyntaxError("too deep") from None
    if not p.eof():
        p.err("trailing text")
    return q, p.flags


def has_filter(q):
    for seg in q[2]:
        for sel in seg[1]:
            if sel[0] == "f":
                return True
    return False


def calls_in(e, out):
    """collect every function call node in an expression / query"""
    if not isinstance(e, list) or not e:
        return out
    if e[0] == "call":
        out.append(e)
    for x in e[1:]:
        if isinstance(x, list):
            if x and isinstance(x[0], str):
                calls_in(x, out)
            else:
                for y in x:
                    calls_in(y, out)
    return out


def selftest():
    """RFC 9535 examples: every query of the section 2 tables must parse to the expected AST shape or be refused."""
    errs = []
    good = {
        "$": ["q", "$", []],
        "$.store.book[*].author": None,
        "$..author": ["q", "$", [["d", [["n", "author"]]]]],
        "$.store.*": None,
        "$.store..price": None,
        "$..book[2]": None,
        "$..book[2].author": None,
        "$..book[-1]": None,
        "$..book[0,1]": ["q", "$", [["d", [["n", "book"]]], ["c", [["i", 0], ["i", 1]]]]],
        "$..book[:2]": ["q", "$", [["d", [["n", "book"]]], ["c", [["s", None, 2, None]]]]],
        "$..book[?@.isbn]": None,
        "$..book[?@.price<10]": None,
        "$..*": None,
        "$.o['j j']": None,
        "$.o['j j']['k.k']": None,
        '$["\'"]["@"]': ["q", "$", [["c", [["n", "'"]]], ["c", [["n", "@"]]]]],
        "$[1:5:2]": ["q", "$", [["c", [["s", 1, 5, 2]]]]],
        "$[5:1:-2]": None,
        "$[::-1]": ["q", "$", [["c", [["s", None, None, -1]]]]],
        "$[ 1 : 5 : 2 ]": ["q", "$", [["c", [["s", 1, 5, 2]]]]],
        "$[1 :]": ["q", "$", [["c", [["s", 1, None, None]]]]],
        "$.a[?@.b == 'kilo']": None,
        "$.a[?(@.b == 'kilo')]": None,
        "$.a[?@>3.5]": None,
        "$.a[?@.b]": None,
        "$[?@.*]": None,
        "$[?@[?@.b]]": None,
        "$.o[?@<3, ?@<3]": None,
        '$.a[?@<2 || @.b == "k"]': None,
        '$.a[?match(@.b, "[jk]")]': None,
        '$.a[?search(@.b, "[jk]")]': None,
        "$.o[?@>1 && @<4]": None,
        "$.o[?@.u || @.x]": None,
        "$.a[?@.b == $.x]": None,
        "$.a[?@ == @]": None,
        "$[?length(@) < 3]": None,
        "$[?count(@.*) == 1]": None,
        "$[?match(@.timezone, 'Europe/.*')]": None,
        "$[?value(@..color) == \"red\"]": None,
        "$[?!@.a]": ["q", "$", [["c", [["f", ["not", ["test", ["q", "@", [["c", [["n", "a"]]]]]]]]]]]],
        "$[?!(@.a==1)&&@.b]": None,
        "$[?@.a==-0]": None,
        "$[?@.a==1e2]": None,
        "$[?@.a==1E+2]": None,
        "$[?@.a==-1.5e-3]": None,
        "$['\\u00e9\\ud83d\\ude00\\/\\\\']": ["q", "$", [["c", [["n", "é\U0001F600/\\"]]]]],
        "$ .a": None,
        "$\n..éx1": ["q", "$", [["d", [["n", "éx1"]]]]],
        "$[?@['a'] [0] == 1]": None,
    }
    bad = ["", "$.", "$..", "$.1", "$[", "$[']", "$['a'", " $", "$ ", "$.a ", "$[?]", "$[?@.a==]", "$[?@.a=1]", "$[1.5]", "$['\\x']",
           "$['\\ud800']", "$['\\udc00']", "$['\\U0041']", "$['a\tb']", "$[?@.a==01]", "$[?@.a==1.]", "$[?@.a==.5]", "$[?@.a==+1]",
           "$[?@.a==True]", "$[?@.a==TRUE]", "$[?!@.a==1]", "$[?(@.a)==1]", "$[?@.a===1]", "$[?@.a&&]", "$[?@.a&@.b]",
           "$[?length (@)==1]", "$[?Length(@)==1]", "$[0 1]", "$a", "$.a..", "$[?@.a==1e]", "$.\u0001", "$. a", "$.. a", "$[1:2:3:4]",
           "$['a']['b'", "$[\"a\\'\"]", "$['a\\\"']"]
    for t, want in good.items():
        try:
            q, flags = parse(t)
        except RefSyntaxError as e:
            errs.append("parse9535: %r should parse: %s" % (t, e))
            continue
        if flags - {"open.singular-space"}:
            errs.append("parse9535: %r flagged %s" % (t, flags))
        if want is not None and q != want:
            errs.append("parse9535: %r -> %r, want %r" % (t, q, want))
    for t in bad:
        try:
            q, flags = parse(t)
            errs.append("parse9535: %r should be refused, got %r" % (t, q))
        except RefSyntaxError:
            pass
    flagged = {"$[01]": "gate.leading-zero", "$[-01]": "gate.leading-zero", "$[1:02]": "open.slice-leading-zero", "$[00::1]": "open.slice-leading-zero", "$[]": "gate.empty-list",
               "$[ ]": "gate.empty-list", "$[1,]": "gate.trailing-comma", "$['a' , ]": "gate.trailing-comma",
               "$[9007199254740992]": "gate.int-range", "$[:-9007199254740992]": "gate.int-range", "$[-0]": "open.neg-zero",
               "$[?@[ 'a' ]==1]": "open.singular-space", "$[?@.a==1e999]": "open.number", "$..true": "open.reserved-name",
               "$[?@.a==9007199254740993]": "open.number"}
    for t, f in flagged.items():
        try:
            q, flags = parse(t)
            if f not in flags:
                errs.append("parse9535: %r should be flagged %s, got %s" % (t, f, flags))
        except RefSyntaxError as e:
            errs.append("parse9535: %r should parse with flag %s: %s" % (t, f, e))
    ok_int = ["$[9007199254740991]", "$[-9007199254740991]", "$[0]", "$[-1]", "$[0:0:0]"]
    for t in ok_int:
        q, flags = parse(t)
        if flags:
            errs.append("parse9535: %r flagged %s" % (t, flags))
    # a bare literal in test position stays in the AST for the typing checker
    q, flags = parse("$[?1]")
    if q != ["q", "$", [["c", [["f", ["lit", 1]]]]]]:
        errs.append("parse9535: $[?1] -> %r" % (q,))
    q, flags = parse("$[?count(1)==1]")
    if q[2][0][1][0][1][2] != ["call", "count", [["lit", 1]]]:
        errs.append("parse9535: count(1) -> %r" % (q,))
    q, flags = parse("$[?match(@.a , 'x' )]")
    if q[2][0][1][0][1] != ["call", "match", [["q", "@", [["c", [["n", "a"]]]]], ["lit", "x"]]]:
        errs.append("parse9535: match args -> %r" % (q,))
    return errs


if __name__ == "__main__":
    for e in selftest():
        print(e)
