"""Reference well-typedness checker for RFC 9535 filter expressions (section 2.4.3 and the
grammar's "must be compared / must be a test" rules), over the JSON AST of vf.ref.rfc9535.
Never imports jsonpath.

check_filter(expr) -> list of rule ids violated (empty list = well-typed)
"""
from __future__ import annotations

from .rfc9535 import FUNCS, is_singular

R_NONSINGULAR_CMP = "non-singular-query-compared"
R_LOGICAL_FN_CMP = "logical-function-compared"
R_VALUE_FN_TEST = "value-function-as-test"
R_ARITY = "wrong-argument-count"
R_ARG_KIND = "wrong-argument-kind"
R_UNKNOWN_FN = "unknown-function"
R_LITERAL_TEST = "literal-not-compared"


def check_query(q, out):
    for seg in q[2]:
        for sel in seg[1]:
            if sel[0] == "f":
                check_logical(sel[1], out)


def fn_type(e):
    f = FUNCS.get(e[1])
    return f[1] if f else None


def check_call(e, out):
    name, args = e[1], e[2]
    if name not in FUNCS:
        out.append(R_UNKNOWN_FN)
        for a in args:
            check_arg_any(a, out)
        return
    ptypes, _ = FUNCS[name]
    if len(args) != len(ptypes):
        out.append(R_ARITY)
        for a in args:
            check_arg_any(a, out)
        return
    for t, a in zip(ptypes, args):
        k = a[0]
        if t == "V":
            if k == "lit":
                pass
            elif k == "q":
                check_query(a, out)
                if not is_singular(a):
                    out.append(R_ARG_KIND)
            elif k == "call":
                check_call(a, out)
                if fn_type(a) not in ("V", None):
                    out.append(R_ARG_KIND)
            else:
                check_logical(a, out)
                out.append(R_ARG_KIND)
        elif t == "N":
            if k == "q":
                check_query(a, out)
            elif k == "call":
                check_call(a, out)
                if fn_type(a) not in ("N", None):
                    out.append(R_ARG_KIND)
            else:
                check_arg_any(a, out)
                out.append(R_ARG_KIND)
        else:  # LogicalType parameter (no standard function has one)
            check_logical(a, out)


def check_arg_any(a, out):
    if a[0] == "q":
        check_query(a, out)
    elif a[0] == "call":
        check_call(a, out)
    elif a[0] != "lit":
        check_logical(a, out)


def check_comparable(e, out):
    k = e[0]
    if k == "lit":
        return
    if k == "q":
        check_query(e, out)
        if not is_singular(e):
            out.append(R_NONSINGULAR_CMP)
        return
    if k == "call":
        check_call(e, out)
        if fn_type(e) == "L":
            out.append(R_LOGICAL_FN_CMP)
        return
    raise ValueError("not a comparable form: %r" % (e,))


def check_logical(e, out):
    k = e[0]
    if k in ("or", "and"):
        check_logical(e[1], out)
        check_logical(e[2], out)
    elif k in ("not", "par"):
        check_logical(e[1], out)
    elif k == "cmp":
        check_comparable(e[2], out)
        check_comparable(e[3], out)
    elif k == "test":
        check_query(e[1], out)
    elif k == "q":
        check_query(e, out)
    elif k == "call":
        check_call(e, out)
        if fn_type(e) == "V":
            out.append(R_VALUE_FN_TEST)
    elif k == "lit":
        out.append(R_LITERAL_TEST)
    else:
        raise ValueError("expr %r" % (e,))


def check_filter(expr):
    out = []
    check_logical(expr, out)
    return out


def check_top_query(q):
    out = []
    check_query(q, out)
    return out


def selftest():
    errs = []
    Q = lambda root, *names: ["q", root, [["c", [["n", n]]] for n in names]]  # noqa: E731
    W = ["q", "@", [["c", [["w"]]]]]
    # RFC 9535 2.4.9 table of well-typedness examples
    table = [
        (["cmp", "==", ["call", "length", [Q("@")]], ["lit", 1]], True),           # not in table, sanity
        (["cmp", ">=", ["call", "length", [Q("@")]], ["lit", 2]], True),
        (["cmp", "<", ["call", "length", [W]], ["lit", 3]], False),                  # $[?length(@.*) < 3]
        (["cmp", "==", ["call", "count", [W]], ["lit", 1]], True),
        (["cmp", "==", ["call", "count", [["lit", 1]]], ["lit", 1]], False),
        (["call", "match", [Q("@", "a"), ["lit", "a"]]], True),
        (["call", "match", [Q("@", "a"), ["lit", "a"]]], True),
        (["cmp", "==", ["call", "value", [["q", "@", [["d", [["n", "color"]]]]]]], ["lit", "red"]], True),
        (["call", "value", [["q", "@", [["d", [["n", "color"]]]]]]], False),          # $[?value(@..color)]
        (["cmp", "==", ["call", "match", [Q("@", "a"), ["lit", "a"]]], ["lit", True]], False),
        (["call", "length", [Q("@", "a")]], False),
        (["not", ["call", "length", [Q("@", "a")]]], False),
        (["cmp", "==", W, ["lit", 1]], False),
        (["lit", True], False),
        (["and", ["test", Q("@", "a")], ["lit", 1]], False),
        (["cmp", "==", ["lit", 1], ["lit", 1]], True),
        (["call", "foo", [Q("@")]], False),
        (["call", "length", [Q("@"), Q("@")]], False),
    ]
    for e, ok in table:
        got = not check_filter(e)
        if got != ok:
            errs.append("typing %r: got %s want %s (%s)" % (e, got, ok, check_filter(e)))
    return errs
