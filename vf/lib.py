"""Thin adapters around the library under test (the only module besides checks that imports jsonpath)."""
from __future__ import annotations

import re

import jsonpath
from jsonpath import (JSONPatchError, JSONPathError, JSONPointerError, JSONPointerResolutionError,
                      RelativeJSONPointerError)

ENV = jsonpath.DEFAULT_ENV


def norm_msg(exc) -> str:
    """Exception text with quoted fragments, numbers and positions removed (stable signature)."""
    try:
        s = str(exc)
    except Exception as e2:  # str() itself failing is reported by C06
        s = "<str failed: %s>" % type(e2).__name__
    s = re.sub(r"\d+", "N", s)
    # keep the leading words only: text after the first quote is input-dependent
    m = re.match(r"[A-Za-z ()N,:-]*", s)
    return (m.group(0) if m else s)[:40].strip()


def exc_site(exc) -> str:
    """innermost jsonpath/ frame of an exception: file:function"""
    tb = exc.__traceback__
    site = "?"
    while tb is not None:
        fn = tb.tb_frame.f_code.co_filename
        if "/jsonpath/" in fn:
            site = "%s:%s" % (fn.split("/jsonpath/", 1)[1], tb.tb_frame.f_code.co_name)
        tb = tb.tb_next
    return site


def find(text, doc, env=None, filter_context=None):
    """-> ("ok", [(parts, obj, path)]) | ("err", exc)  using finditer (compile + evaluate)."""
    env = env or ENV
    try:
        ms = list(env.finditer(text, doc, filter_context=filter_context))
    except Exception as e:  # noqa: BLE001 - classified by the caller
        return "err", e
    return "ok", [(m.parts, m.obj, m.path) for m in ms]


def same_node(lib_obj, ref_obj) -> bool:
    """Identity for containers, strict JSON equality for scalars."""
    from .strict import jeq
    if isinstance(ref_obj, (dict, list)):
        return lib_obj is ref_obj
    return jeq(lib_obj, ref_obj) and type(lib_obj) is type(ref_obj)
