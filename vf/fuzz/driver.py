"""Run the atheris campaigns as subprocesses (libFuzzer never returns) and fold what they
found into a Stats object.  Thorough tier only.  Scratch lives under /verif/scratch (git-ignored)."""
from __future__ import annotations

import json
import os
import re
import shutil
import subprocess
import sys

from ..run import ROOT, Stats

DICT = ["$", "@", "#", "_", "~", "^", "..", "[?", "]", "(", ")", "&&", "||", "==", "!=", "<>", "<=", ">=", "=~", " in ",
        " contains ", " and ", " or ", "not ", "true", "false", "null", "undefined", "missing", "length(", "count(",
        "match(", "search(", "value(", "'a'", '"a"', "/a/i", "1e2", "-0", ":", "::-1", "*", "\\\\u0041", "~0", "~1", "0#", "1+1"]


def seed_corpus(dirpath):
    """query strings from the repository's own tests"""
    os.makedirs(dirpath, exist_ok=True)
    repo = os.environ.get("VERIF_REPO", "/repo")
    n = 0
    for fn in sorted(os.listdir(os.path.join(repo, "tests"))):
        if not fn.endswith(".py"):
            continue
        try:
            src = open(os.path.join(repo, "tests", fn), encoding="utf-8").read()
        except OSError:
            continue
        for m in re.finditer(r"(?:path|query)=(\"(?:[^\"\\]|\\.)*\"|'(?:[^'\\]|\\.)*')", src):
            try:
                s = eval(m.group(1))  # noqa: S307 - literals from the repository's test files
            except Exception:  # noqa: BLE001
                continue
            with open(os.path.join(dirpath, "t%04d" % n), "w", encoding="utf-8") as f:
                f.write(s)
            n += 1
            if n >= 400:
                return n
    return n


def run_campaigns(seed, seconds, plans=None, death_hook=True):
    stats = Stats()
    try:
        import atheris  # noqa: F401
    except ImportError:
        stats.notes.append({"atheris": "not importable; fuzz campaigns skipped"})
        return stats
    scratch = os.path.join(ROOT, "scratch", "fuzz-%d" % os.getpid())
    shutil.rmtree(scratch, ignore_errors=True)
    os.makedirs(scratch)
    dict_path = os.path.join(scratch, "tokens.dict")
    with open(dict_path, "w", encoding="utf-8") as f:
        for t in DICT:
            f.write('"%s"\n' % t.replace("\\", "\\\\").replace('"', '\\"'))
    plans = plans or [("query-text", "empty"), ("query-text", "tests"), ("query-struct", "empty"), ("pointer-text", "empty")]
    per = max(10, int(seconds / 2 * float(os.environ.get("VF_BUDGET_SCALE", "1") or 1)))
    procs = []
    for mode, corpus in plans:
        cdir = os.path.join(scratch, "%s-%s" % (mode, corpus))
        os.makedirs(cdir)
        if corpus == "tests":
            seed_corpus(cdir)
        findings = os.path.join(scratch, "%s-%s.jsonl" % (mode, corpus))
        cmd = [sys.executable, os.path.join(ROOT, "vf", "fuzz", "target.py"), mode, findings,
               "-max_total_time=%d" % per, "-seed=%d" % (seed % 2**31 or 1), "-max_len=400", "-timeout=30",
               "-dict=" + dict_path, "-print_final_stats=1", cdir]
        log = open(os.path.join(scratch, "%s-%s.log" % (mode, corpus)), "w")
        procs.append((mode, corpus, findings, subprocess.Popen(cmd, stdout=log, stderr=subprocess.STDOUT, cwd=ROOT)))
    for mode, corpus, findings, p in procs:
        try:
            p.wait(timeout=per + 120)
        except subprocess.TimeoutExpired:
            p.kill()
        execs = 0
        if os.path.exists(findings + ".count"):
            try:
                lines = open(findings + ".count").read().splitlines()
                execs = int(lines[0].split()[0])
                if len(lines) > 1:
                    for k, v in json.loads(lines[1]).items():
                        stats.classes["atheris:%s:%s:%s" % (mode, corpus, k)] += v
            except Exception:  # noqa: BLE001
                pass
        stats.evaluations += execs
        stats.generated += execs
        stats.classes["atheris:%s:%s:execs" % (mode, corpus)] += execs
        if os.path.exists(findings):
            for line in open(findings, encoding="utf-8"):
                blob = json.loads(line)
                stats.fail(blob["signature"], blob["case"], "[atheris %s/%s] %s" % (mode, corpus, blob["detail"]))
        stats.notes.append({"atheris": "%s/%s" % (mode, corpus), "execs": execs, "exit": p.returncode})
        if death_hook and p.returncode not in (0, None):
            # stopped by the hang watchdog (or crashed): let C06 confirm the last guarded call in isolation
            from ..checks import c06
            st2 = c06.on_worker_death(p.pid, {"name": "atheris:%s/%s" % (mode, corpus)}, p.returncode)
            if st2 is not None:
                stats.merge(st2)
    shutil.rmtree(scratch, ignore_errors=True)
    return stats
