#!/venv/bin/python
"""atheris target: python target.py <mode> <findings.jsonl> [libFuzzer args...]

mode: query-text | query-struct | pointer-text (C06 outcome-validity oracle)
      rfc-text (independent RFC 9535 parser / typing checker / evaluator as oracle: C01, C02, C07)
      c10-text (C10 string-form round trip oracle) | c04-pointer (C04 RFC 6901 reference oracle)
The semantic oracle (C06's outcome-validity predicate) sits inside the target.  A finding does not
stop the campaign: it is written once per signature to the findings file and the search continues.
"""
import json
import os
import sys

mode, findings_path = sys.argv[1], sys.argv[2]
argv = [sys.argv[0]] + sys.argv[3:]

import atheris  # noqa: E402

with atheris.instrument_imports(include=["jsonpath"]):
    import jsonpath  # noqa: F401
if mode == "rfc-text":
    # the hand-written reference parser is instrumented too: its branches give the coverage gradient towards
    # grammatical text that the library's regex lexer (C code) cannot give
    with atheris.instrument_imports(include=["vf.ref.parse9535", "vf.ref.typing9535"]):
        import vf.ref.parse9535  # noqa: F401
        import vf.ref.typing9535  # noqa: F401

import random  # noqa: E402

from vf.checks import c06  # noqa: E402
from vf.run import Stats  # noqa: E402

stats = Stats()
seen = set()
execs = [0]


def flush():
    for sig, (n, fs) in stats.failures.items():
        if sig not in seen:
            seen.add(sig)
            with open(findings_path, "a", encoding="utf-8") as f:
                f.write(json.dumps({"signature": sig, "case": fs[0]["case"], "detail": fs[0]["detail"]}, default=repr) + "\n")
    if execs[0] % 2000 == 0:
        with open(findings_path + ".count", "w") as f:
            f.write("%d %d\n" % (execs[0], stats.evaluations))
            f.write(json.dumps({k: v for k, v in stats.classes.items() if len(k) < 60}) + "\n")


def one_query_text(data):
    fdp = atheris.FuzzedDataProvider(data)
    text = fdp.ConsumeUnicodeNoSurrogates(300)
    execs[0] += 1
    c06.probe_query(stats, text, [0, 1, 5, 7], "atheris-text")
    flush()


def one_pointer_text(data):
    fdp = atheris.FuzzedDataProvider(data)
    ue = fdp.ConsumeBool()
    ud = fdp.ConsumeBool()
    rel = fdp.ConsumeBool()
    text = fdp.ConsumeUnicodeNoSurrogates(120)
    execs[0] += 1
    rng = random.Random(len(data))
    if rel:
        half = len(text) // 2
        c06.probe_relative(stats, text[:half], "/" + text[half:].replace("~", "~0"), ue, "atheris-rel")
    else:
        c06.probe_pointer(stats, text, ue, ud, rng, "atheris-ptr")
    flush()


def make_struct():
    from hypothesis import given, settings, HealthCheck

    @settings(database=None, deadline=None, suppress_health_check=list(HealthCheck))
    @given(c06.q_cases())
    def t(x):
        m, s, txt = x
        rng = random.Random(s)
        if m == "soup":
            text = c06.soup_text(rng)
        elif m == "mutation":
            text = c06.mutate(rng, c06.valid_text(rng, ext=rng.random() < 0.6))
        elif m == "valid":
            text = c06.valid_text(rng)
        else:
            text = txt
        execs[0] += 1
        c06.probe_query(stats, text, [0, 1, 5, 7], "atheris-struct")
        flush()

    return t.hypothesis.fuzz_one_input


def one_c10_text(data):
    from vf.checks import c10
    fdp = atheris.FuzzedDataProvider(data)
    text = fdp.ConsumeUnicodeNoSurrogates(300)
    execs[0] += 1
    c10.judge(stats, text, [c10.PANEL[0], c10.PANEL[1], c10.PANEL[5]] + c10.XDOCS, "atheris")
    flush()


C04_DOCS = None


def one_c04_pointer(data):
    from vf.checks import c04
    global C04_DOCS
    if C04_DOCS is None:
        C04_DOCS = c04.universe()
    fdp = atheris.FuzzedDataProvider(data)
    doc = C04_DOCS[fdp.ConsumeIntInRange(0, len(C04_DOCS) - 1)]
    ntok = fdp.ConsumeIntInRange(0, 3)
    toks = []
    for _ in range(ntok):
        if fdp.ConsumeBool():
            toks.append(c04.T[fdp.ConsumeIntInRange(0, len(c04.T) - 1)])
        else:
            toks.append(fdp.ConsumeUnicodeNoSurrogates(6))
    execs[0] += 1
    c04.judge(stats, doc, toks, "atheris")
    flush()


RFC_DOCS = [{"a": 1, "b": [1, "a", None, {"a": 2}], "c": {"a": "ab", "d": [0, 1.5, True]}, "": {"a": []}},
            [[1, 2, 3], {"a": 1, "b": 2}, "abc", 0, None, False, {"a": {"a": {"a": 1}}}]]


def one_rfc_text(data):
    from vf import textfuzz
    fdp = atheris.FuzzedDataProvider(data)
    text = fdp.ConsumeUnicodeNoSurrogates(200)
    execs[0] += 1
    textfuzz.judge_text(stats, text, RFC_DOCS, want="any", origin="textfuzz")
    flush()


if mode == "query-text":
    atheris.Setup(argv, one_query_text)
elif mode == "rfc-text":
    atheris.Setup(argv, one_rfc_text)
elif mode == "c10-text":
    atheris.Setup(argv, one_c10_text)
elif mode == "c04-pointer":
    atheris.Setup(argv, one_c04_pointer)
elif mode == "pointer-text":
    atheris.Setup(argv, one_pointer_text)
else:
    atheris.Setup(argv, make_struct())
atheris.Fuzz()
