#!/venv/bin/python
"""Property-preserving changes written by independent sub-agents (each saw only the 20 property texts): refactors,
reworded errors, changed string forms, behaviour changes in territory no property covers.  Every check must stay SILENT
on them - this is the false-alarm counterpart of tools/seeded.py.

  tools/benign.py import <agent-out-dir> <name>     verify (patch applies, 719 tests pass) and store under benign/<name>/
  tools/benign.py run [name-substring ...]          run every quick check against every stored change; any exit != 0 is printed

Everything happens in scratch copies of /repo under /var/tmp (removed afterwards); /repo is never modified.
"""
import json
import os
import shutil
import subprocess
import sys

HERE = os.path.dirname(os.path.dirname(os.path.abspath(__file__)))
sys.path.insert(0, os.path.join(HERE, "tools"))
import seeded as S  # noqa: E402

BENIGN = os.path.join(HERE, "benign")
CHECKS = ["C%02d" % i for i in range(1, 21)]


def cmd_import(src, name):
    dst = os.path.join(BENIGN, name)
    os.makedirs(dst, exist_ok=True)
    shutil.copy(os.path.join(src, "patch.diff"), os.path.join(dst, "patch.diff"))
    notes = open(os.path.join(src, "notes.txt"), encoding="utf-8").read() if os.path.exists(os.path.join(src, "notes.txt")) else ""
    d, tree = S.scratch_tree()
    try:
        ok, msg = S.apply_patch(tree, os.path.join(dst, "patch.diff"))
        if not ok:
            print("PATCH DOES NOT APPLY:", msg)
            shutil.rmtree(dst)
            return 1
        tests = S.run_tests(tree)
    finally:
        shutil.rmtree(d, ignore_errors=True)
    good = "719 passed" in tests and "failed" not in tests
    json.dump({"notes": notes.strip()[:4000], "tests_with_change": tests, "checks": {}}, open(os.path.join(dst, "meta.json"), "w"), indent=1)
    print("%s: tests=%s -> %s" % (name, tests, "KEPT" if good else "REJECTED"))
    if not good:
        shutil.rmtree(dst)
        return 1
    return 0


def cmd_run(filters):
    names = sorted(n for n in os.listdir(BENIGN) if os.path.isdir(os.path.join(BENIGN, n)))
    if filters:
        names = [n for n in names if any(f in n for f in filters)]
    alarms = 0
    for name in names:
        dst = os.path.join(BENIGN, name)
        meta = json.load(open(os.path.join(dst, "meta.json")))
        d, tree = S.scratch_tree()
        try:
            ok, msg = S.apply_patch(tree, os.path.join(dst, "patch.diff"))
            if not ok:
                print("%-24s patch no longer applies: %s" % (name, msg[-120:]))
                continue
            env = dict(os.environ, VERIF_REPO=tree)
            env.pop("VF_BOOT", None)
            res = {}
            for prop in CHECKS:
                r = subprocess.run([os.path.join(HERE, "check"), prop, "--tier", "quick"], cwd=HERE, capture_output=True, text=True, env=env)
                sig = [l[:300] for l in r.stdout.splitlines() if l.startswith(("FAILURE", "HARNESS"))]
                res[prop] = {"exit": r.returncode, "signatures": sig[:4]}
                if r.returncode != 0:
                    alarms += 1
                    print("%-24s %s exit %d  %s" % (name, prop, r.returncode, " | ".join(sig[:2])), flush=True)
            meta["checks"] = res
            json.dump(meta, open(os.path.join(dst, "meta.json"), "w"), indent=1)
            print("%-24s %d/20 checks silent" % (name, sum(1 for v in res.values() if v["exit"] == 0)), flush=True)
        finally:
            shutil.rmtree(d, ignore_errors=True)
    subprocess.run(["git", "checkout", "--", "evidence"], cwd=HERE)
    shutil.rmtree(os.path.join(HERE, "replays"), ignore_errors=True)
    print("%d property-preserving changes, %d alarms" % (len(names), alarms))
    return 0


if __name__ == "__main__":
    if sys.argv[1] == "import":
        sys.exit(cmd_import(*sys.argv[2:4]))
    sys.exit(cmd_run(sys.argv[2:]))
