#!/venv/bin/python
"""Regenerate /verif/MANIFEST.json from the table below (keeps it schema-valid)."""
import json
import os

HERE = os.path.dirname(os.path.dirname(os.path.abspath(__file__)))

BASELINE = ("cd /repo && env -u JG_RP_PYTHON_JSONPATH_VERIF /venv/bin/python -m pytest -ra -q "
            "-p no:cacheprovider --timeout=900 --continue-on-collection-errors")

import importlib
import sys

sys.path[:0] = [os.environ.get("VERIF_REPO", "/repo"), HERE, os.path.join(HERE, ".deps")]

TRUST = ("Trusted: CPython, json, re, Hypothesis, the harness's reference models (vf/ref, validated against the RFCs' "
         "worked examples by vf/preflight.py) and generators. Exploration only: absence of violations outside the "
         "explored space is not claimed.")


def discover():
    claimed = {}
    for n in range(1, 21):
        pid = "C%02d" % n
        try:
            mod = importlib.import_module("vf.checks." + pid.lower())
        except ImportError:
            continue
        if getattr(mod, "CLAIM", False):
            claimed[pid] = (mod.TECHNIQUE, mod.LEVEL_TEXT, getattr(mod, "LEVEL_NOTE", TRUST), "DESIGN.md section 2, " + pid)
    return claimed


CLAIMED = discover()

PENDING_REASON = "check not built yet in this session (planned: see DESIGN.md section 2); not claimed until it runs clean"


def main():
    props = [json.loads(l) for l in open(os.path.join(HERE, "properties.jsonl"), encoding="utf-8")]
    checks = []
    na = []
    for p in props:
        pid = p["id"]
        if pid in CLAIMED:
            tech, text, note, ref = CLAIMED[pid]
            checks.append({
                "property_id": pid,
                "quick_cmd": "./check %s --tier quick" % pid,
                "thorough_cmd": "./check %s --tier thorough" % pid,
                "evidence_file": "evidence/%s.json" % pid,
                "replay_cmd_template": "./check %s --replay {path}" % pid,
                "engine": "vf",
                "level_claimed": {"category": "exploration", "text": text, "design_ref": ref},
                "level_note": note,
                "technique": tech,
            })
        else:
            na.append({"property_id": pid, "reason": PENDING_REASON})
    man = {
        "version": 1,
        "setup_cmd": "./setup.sh",
        "hooks": {
            "guard": "JG_RP_PYTHON_JSONPATH_VERIF",
            "enable": "no hooks are needed: every observation point is public API; checks import /repo's working tree directly (PYTHONPATH=/repo first) with the guard variable unset",
            "baseline_off_cmd": BASELINE,
            "source_commits": [],
            "add_only": True,
        },
        "engines": [{
            "name": "vf",
            "path": "vf/",
            "serves_properties": [c["property_id"] for c in checks],
            "kind_free_text": "Hypothesis strategies and rule-based state machines, exhaustive small-scope enumeration (itertools x 16 processes), atheris campaigns in the thorough tier; explicit oracles: independent reference models (vf/ref), round trips, differential and metamorphic relations",
        }],
        "checks": checks,
        "notes": "All checks: exit 0 = held on everything explored (KNOWN-FINDING lines for listed findings), exit 1 + VIOLATION line otherwise, exit 2 = harness error. VERIF_SEED is honoured (default 0); VERIF_REPO selects the tree under test (default /repo). Repaired defects are listed as 'fixed:' lines in KNOWN_FINDINGS.txt.",
        "not_applicable": na,
    }
    with open(os.path.join(HERE, "MANIFEST.json"), "w", encoding="utf-8") as f:
        json.dump(man, f, indent=1)
        f.write("\n")
    print("MANIFEST.json: %d checks, %d not_applicable" % (len(checks), len(na)))


if __name__ == "__main__":
    main()
