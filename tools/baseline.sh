#!/bin/sh
# Run the repository's pinned baseline suite (guard OFF) and print the pass/fail summary.
cd "${VERIF_REPO:-/repo}" && env -u JG_RP_PYTHON_JSONPATH_VERIF /venv/bin/python -m pytest -ra -q -p no:cacheprovider --timeout=900 --continue-on-collection-errors "$@" 2>&1 | tail -6
