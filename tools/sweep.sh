#!/bin/sh
# usage: tools/sweep.sh <tier> <seed>...   run every check at each seed; print one line per run, full FAILURE lines for alarms
tier=$1; shift
for s in "$@"; do
  for c in C01 C02 C03 C04 C05 C06 C07 C08 C09 C10 C11 C12 C13 C14 C15 C16 C17 C18 C19 C20; do
    VERIF_SEED=$s ./check $c --tier $tier 2>&1 | grep -E "^(C[0-9]+ (quick|thorough)|FAILURE|HARNESS|KNOWN|VIOLATION)" | cut -c1-400
  done
done
