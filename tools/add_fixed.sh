#!/bin/sh
# usage: tools/add_fixed.sh C05 "<commit subject grep pattern>" "<what failed>"
h=$(git -C /repo log --format='%h %s' | grep -F "$2" | head -1 | cut -d' ' -f1)
[ -n "$h" ] || { echo "no commit matches $2"; exit 1; }
echo "fixed: property=$1 $h $3" >> /verif/KNOWN_FINDINGS.txt
tail -1 /verif/KNOWN_FINDINGS.txt
