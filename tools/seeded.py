#!/venv/bin/python
"""Seeded changes written by independent sub-agents (each saw only one property's text).

  tools/seeded.py import <agent-out-dir> <PROP> <name>   verify (tests pass, demo fails with / passes without) and store
  tools/seeded.py run [name-substring ...]               run the mapped quick checks against every stored change

Everything happens in scratch copies of /repo under /var/tmp (removed afterwards); /repo is never modified.
"""
import json
import os
import shutil
import subprocess
import sys
import tempfile

HERE = os.path.dirname(os.path.dirname(os.path.abspath(__file__)))
SEEDED = os.path.join(HERE, "seeded")


def scratch_tree():
    d = tempfile.mkdtemp(prefix="vf-seed-", dir="/var/tmp")
    tree = os.path.join(d, "repo")
    shutil.copytree("/repo", tree, ignore=shutil.ignore_patterns(".git", "__pycache__", "docs", ".pytest_cache"))
    subprocess.run(["git", "init", "-q"], cwd=tree)
    return d, tree


def apply_patch(tree, patch):
    r = subprocess.run(["git", "apply", "--whitespace=nowarn", patch], cwd=tree, capture_output=True, text=True)
    if r.returncode != 0:
        r = subprocess.run(["patch", "-p1", "--fuzz=3", "-i", patch], cwd=tree, capture_output=True, text=True)
    return r.returncode == 0, (r.stdout + r.stderr)[-400:]


def run_tests(tree):
    r = subprocess.run(["/venv/bin/python", "-m", "pytest", "-q", "-p", "no:cacheprovider", "--continue-on-collection-errors"],
                       cwd=tree, capture_output=True, text=True, env=dict(os.environ, PYTHONPATH=tree))
    summ = [l for l in r.stdout.splitlines() if " passed" in l] or ["?"]
    return summ[-1].strip()


def run_demo(tree, demo):
    r = subprocess.run(["/venv/bin/python", demo], cwd=tree, capture_output=True, text=True,
                       env=dict(os.environ, PYTHONPATH=tree), timeout=300)
    return r.returncode, (r.stdout + r.stderr)[-300:]


def cmd_import(src, prop, name):
    dst = os.path.join(SEEDED, name)
    os.makedirs(dst, exist_ok=True)
    for f in ("patch.diff", "demo.py"):
        shutil.copy(os.path.join(src, f), os.path.join(dst, f))
    notes = open(os.path.join(src, "notes.txt"), encoding="utf-8").read() if os.path.exists(os.path.join(src, "notes.txt")) else ""
    # demos were written against the agent's worktree path: make them tree-relative
    demo = os.path.join(dst, "demo.py")
    s = open(demo, encoding="utf-8").read()
    import re
    s = re.sub(r"(?m)^(\s*)assert [^\n]*__file__[^\n]*$", r"\1pass  # (import-path assertion of the agent's worktree removed)", s)
    s = re.sub(r"/tmp/seed-C\d\d", ".", s)
    open(demo, "w", encoding="utf-8").write(s)
    d, tree = scratch_tree()
    try:
        rc0, out0 = run_demo(tree, demo)
        ok, msg = apply_patch(tree, os.path.join(dst, "patch.diff"))
        if not ok:
            print("PATCH DOES NOT APPLY:", msg)
            return 1
        tests = run_tests(tree)
        rc1, out1 = run_demo(tree, demo)
    finally:
        shutil.rmtree(d, ignore_errors=True)
    meta = {
        "property": prop,
        "needs_to_manifest": notes.strip()[:3000],
        "verified": {
            "demo_without_change": {"exit": rc0, "tail": out0.strip()[-200:]},
            "tests_with_change": tests,
            "demo_with_change": {"exit": rc1, "tail": out1.strip()[-200:]},
        },
        "what_i_ran": "scratch copy of /repo (current HEAD incl. fix commits) under /var/tmp: demo.py -> exit 0; git apply patch.diff; "
                      "pytest (719 tests) ; demo.py -> exit 1; scratch removed",
        "caught_by": {},
    }
    json.dump(meta, open(os.path.join(dst, "meta.json"), "w"), indent=1)
    good = rc0 == 0 and rc1 != 0 and "719 passed" in tests and "failed" not in tests
    print("%s: demo clean=%d, with change=%d, tests=%s -> %s" % (name, rc0, rc1, tests, "KEPT" if good else "REJECTED"))
    if not good:
        shutil.rmtree(dst)
        return 1
    return 0


def cmd_run(filters):
    names = sorted(n for n in os.listdir(SEEDED) if os.path.isdir(os.path.join(SEEDED, n)))
    if filters:
        names = [n for n in names if any(f in n for f in filters)]
    missed = 0
    for name in names:
        dst = os.path.join(SEEDED, name)
        meta = json.load(open(os.path.join(dst, "meta.json")))
        d, tree = scratch_tree()
        try:
            ok, msg = apply_patch(tree, os.path.join(dst, "patch.diff"))
            if not ok:
                print("%-28s patch no longer applies: %s" % (name, msg[-120:]))
                continue
            props = [meta["property"]] + meta.get("also_check", [])
            env = dict(os.environ, VERIF_REPO=tree)
            env.pop("VF_BOOT", None)
            res = {}
            for prop in props:
                r = subprocess.run([os.path.join(HERE, "check"), prop, "--tier", "quick"], cwd=HERE, capture_output=True, text=True, env=env)
                sig = [l for l in r.stdout.splitlines() if l.startswith("FAILURE")]
                res[prop] = {"exit": r.returncode, "first_signature": sig[0][:160] if sig else ""}
            meta["caught_by"] = res
            json.dump(meta, open(os.path.join(dst, "meta.json"), "w"), indent=1)
            verdict = " ".join("%s:%s" % (p, {0: "MISSED", 1: "caught", 2: "HARNESS-ERROR"}.get(v["exit"])) for p, v in res.items())
            if all(v["exit"] != 1 for v in res.values()):
                missed += 1
            print("%-28s %s" % (name, verdict), flush=True)
        finally:
            shutil.rmtree(d, ignore_errors=True)
    subprocess.run(["git", "checkout", "--", "evidence"], cwd=HERE)
    shutil.rmtree(os.path.join(HERE, "replays"), ignore_errors=True)
    print("%d seeded changes, %d missed" % (len(names), missed))
    return 0


if __name__ == "__main__":
    if sys.argv[1] == "import":
        sys.exit(cmd_import(*sys.argv[2:5]))
    sys.exit(cmd_run(sys.argv[2:]))
