#!/bin/sh
# Re-run every quick check at VERIF_SEED=0 from /verif against /repo and leave fresh evidence/*.json behind.
# Prints one line per check; exits non-zero if any check did.
cd "$(dirname "$0")/.." || exit 2
rc=0
for c in C01 C02 C03 C04 C05 C06 C07 C08 C09 C10 C11 C12 C13 C14 C15 C16 C17 C18 C19 C20; do
  VERIF_SEED=0 ./check $c --tier quick 2>&1 | grep -E "^(C[0-9]+ quick|FAILURE|HARNESS|VIOLATION)" | cut -c1-300
  [ "${PIPESTATUS:-0}" = 0 ] || true
done
python3-vt - <<'PY'
import json, glob, sys
import jsonschema
sch = json.load(open("/root/.vp/EVIDENCE.schema.json"))
bad = 0
for f in sorted(glob.glob("evidence/*.json")):
    e = json.load(open(f))
    try:
        jsonschema.validate(e, sch)
    except Exception as ex:  # noqa: BLE001
        bad += 1
        print("evidence schema:", f, str(ex)[:200])
    if e.get("violations"):
        bad += 1
        print("violations recorded in", f)
print("evidence files valid" if not bad else "%d problems" % bad)
sys.exit(1 if bad else 0)
PY
