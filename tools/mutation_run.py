#!/venv/bin/python
"""Self-validation: apply each seeded semantic change (mutants/mutants.json) to a scratch copy of
/repo under /var/tmp, check that the baseline tests still pass there (optional) and that the mapped
quick check reports a VIOLATION.  usage: tools/mutation_run.py [--tests] [id-substring ...]"""
import json
import os
import shutil
import subprocess
import sys
import tempfile

HERE = os.path.dirname(os.path.dirname(os.path.abspath(__file__)))


def main():
    args = sys.argv[1:]
    run_tests = "--tests" in args
    args = [a for a in args if not a.startswith("--")]
    muts = json.load(open(os.path.join(HERE, "mutants", "mutants.json")))
    if args:
        muts = [m for m in muts if any(a in m["id"] or a == m["prop"] for a in args)]
    results = []
    for m in muts:
        scratch = tempfile.mkdtemp(prefix="vf-mut-", dir="/var/tmp")
        try:
            tree = os.path.join(scratch, "repo")
            shutil.copytree("/repo", tree, ignore=shutil.ignore_patterns(".git", "__pycache__", "docs", ".pytest_cache"))
            ok = True
            for ed in m["edits"]:
                p = os.path.join(tree, ed["file"])
                s = open(p, encoding="utf-8").read()
                if s.count(ed["old"]) < 1:
                    print("MUTANT %s: pattern not found in %s" % (m["id"], ed["file"]))
                    ok = False
                    break
                s = s.replace(ed["old"], ed["new"]) if ed.get("all") else s.replace(ed["old"], ed["new"], 1)
                open(p, "w", encoding="utf-8").write(s)
            if not ok:
                results.append((m["id"], m["prop"], "BROKEN-MUTANT"))
                continue
            tests = "-"
            if run_tests:
                r = subprocess.run(["/venv/bin/python", "-m", "pytest", "-q", "-p", "no:cacheprovider",
                                    "--continue-on-collection-errors"], cwd=tree, capture_output=True, text=True,
                                   env=dict(os.environ, PYTHONPATH=tree))
                summ = [l for l in r.stdout.splitlines() if " passed" in l] or ["?"]
                tests = "tests-pass" if ("719 passed" in summ[-1] and "failed" not in summ[-1]) else "TESTS-FAIL(%s)" % summ[-1][:40]
            env = dict(os.environ, VERIF_REPO=tree)
            env.pop("VF_BOOT", None)
            props = m["prop"].split(",")
            verdicts = []
            for prop in props:
                if not os.path.exists(os.path.join(HERE, "vf", "checks", prop.lower() + ".py")):
                    continue
                r = subprocess.run([os.path.join(HERE, "check"), prop, "--tier", "quick"], cwd=HERE, capture_output=True,
                                   text=True, env=env)
                sigs = [l for l in r.stdout.splitlines() if l.startswith("FAILURE")]
                verdicts.append("%s:%s" % (prop, {0: "MISSED", 1: "caught", 2: "HARNESS-ERROR"}.get(r.returncode, r.returncode)))
                if r.returncode == 2:
                    print(r.stdout[-1500:])
                elif r.returncode == 1 and "-v" in sys.argv:
                    print("   ", sigs[0][:200] if sigs else "")
            results.append((m["id"], m["prop"], tests + " " + " ".join(verdicts)))
            print("%-40s %s" % (m["id"], results[-1][2]), flush=True)
        finally:
            shutil.rmtree(scratch, ignore_errors=True)
    # evidence files were rewritten by runs against mutants: restore the committed ones
    subprocess.run(["git", "checkout", "--", "evidence"], cwd=HERE)
    shutil.rmtree(os.path.join(HERE, "replays"), ignore_errors=True)
    rp = os.path.join(HERE, "mutants", "results.json")
    allres = json.load(open(rp)) if os.path.exists(rp) else {}
    for mid, prop, verdict in results:
        allres[mid] = verdict.replace("- ", "", 1) if verdict.startswith("- ") else verdict
    json.dump(allres, open(rp, "w"), indent=1, sort_keys=True)
    missed = [r for r in results if "MISSED" in r[2] or "BROKEN" in r[2] or "HARNESS" in r[2]]
    print("%d mutants, %d not caught" % (len(results), len(missed)))
    return 1 if missed else 0


if __name__ == "__main__":
    sys.exit(main())
