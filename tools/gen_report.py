#!/venv/bin/python
"""Rewrite the generated sections of DESIGN.md (between BEGIN/END GENERATED markers) from
KNOWN_FINDINGS.txt, mutants/mutants.json (+ mutants/results.json) and seeded/*/meta.json."""
import json
import os
import re

HERE = os.path.dirname(os.path.dirname(os.path.abspath(__file__)))


def fixed_table():
    rows = []
    for line in open(os.path.join(HERE, "KNOWN_FINDINGS.txt"), encoding="utf-8"):
        m = re.match(r"fixed: property=(C\d+) (\w+) (.*)", line.strip())
        if m:
            rows.append("| %s | `%s` | %s |" % (m.group(1), m.group(2), m.group(3).replace("|", "\\|")))
    known = [l.strip() for l in open(os.path.join(HERE, "KNOWN_FINDINGS.txt"), encoding="utf-8") if l.startswith("known:")]
    out = ["| Property | fix commit in /repo | what failed on the pinned tree (found by that property's check) |", "|---|---|---|"] + sorted(rows)
    out.append("")
    out.append("%d repaired defects, %d recorded as known findings." % (len(rows), len(known)))
    return "\n".join(out)


def mutant_table():
    muts = json.load(open(os.path.join(HERE, "mutants", "mutants.json")))
    res = {}
    rp = os.path.join(HERE, "mutants", "results.json")
    if os.path.exists(rp):
        res = json.load(open(rp))
    out = ["| mutant | intended property | what it changes | result |", "|---|---|---|---|"]
    for m in muts:
        out.append("| `%s` | %s | %s | %s |" % (m["id"], m["prop"], m.get("note", "").replace("|", "\\|"), res.get(m["id"], "not run")))
    return "\n".join(out)


def seeded_table():
    d = os.path.join(HERE, "seeded")
    out = ["| seeded change | property | needs, in order to manifest | caught by |", "|---|---|---|---|"]
    for name in sorted(os.listdir(d)):
        mp = os.path.join(d, name, "meta.json")
        if not os.path.exists(mp):
            continue
        meta = json.load(open(mp))
        need = " ".join(meta.get("needs_to_manifest", "").split())[:260].replace("|", "\\|")
        caught = ", ".join("%s: %s" % (p, {0: "MISSED", 1: "caught", 2: "harness error"}.get(v.get("exit"), "?")) for p, v in meta.get("caught_by", {}).items()) or "not run"
        hist = meta.get("history")
        if hist:
            caught += " (%s)" % hist
        out.append("| `%s` | %s | %s | %s |" % (name, meta["property"], need, caught))
    return "\n".join(out)


def benign_table():
    d = os.path.join(HERE, "benign")
    if not os.path.isdir(d):
        return "(none)"
    out = ["| property-preserving change | what it changes (agent's notes, abridged) | quick checks silent |", "|---|---|---|"]
    for name in sorted(os.listdir(d)):
        mp = os.path.join(d, name, "meta.json")
        if not os.path.exists(mp):
            continue
        meta = json.load(open(mp))
        note = " ".join(meta.get("notes", "").split())[:300].replace("|", "\\|")
        ch = meta.get("checks", {})
        loud = sorted(p for p, v in ch.items() if v.get("exit") != 0)
        res = ("%d/%d" % (len(ch) - len(loud), len(ch))) if ch else "not run"
        if loud:
            res += " (alarm: %s)" % ", ".join(loud)
        if meta.get("assessment"):
            res += " - " + meta["assessment"].replace("|", "\\|")
        out.append("| `%s` | %s | %s |" % (name, note, res))
    return "\n".join(out)


def asbuilt():
    m = json.load(open(os.path.join(HERE, "MANIFEST.json")))
    out = []
    for c in m["checks"]:
        out.append("* **%s** - %s" % (c["property_id"], c["level_claimed"]["text"]))
    return "\n".join(out)


def revert_table():
    rp = os.path.join(HERE, "mutants", "revert_results.json")
    if not os.path.exists(rp):
        return "(not run)"
    res = json.load(open(rp))
    out = ["| fix commit reverted | property | result of that property's quick check |", "|---|---|---|"]
    for c, v in sorted(res.items(), key=lambda kv: (kv[1]["property"], kv[0])):
        out.append("| `%s` | %s | %s |" % (c, v["property"], v["result"]))
    n = sum(1 for v in res.values() if v["result"] == "re-detected")
    out.append("")
    out.append("%d of %d reverted fixes re-detected; the rest could not be reverted in isolation (later fixes touch the same lines)." % (n, len(res)))
    return "\n".join(out)


def notes():
    t = open(os.path.join(HERE, "NOTES.md"), encoding="utf-8").read()
    k = t.index("## False alarms corrected")
    return t[k + len("## False alarms corrected"):].strip()


def main():
    p = os.path.join(HERE, "DESIGN.md")
    s = open(p, encoding="utf-8").read()
    for key, fn in (("fixed-defects", fixed_table), ("mutants", mutant_table), ("seeded", seeded_table), ("notes", notes), ("reverts", revert_table), ("benign", benign_table), ("asbuilt", asbuilt)):
        pat = re.compile(r"(<!-- BEGIN GENERATED: %s -->\n).*?(<!-- END GENERATED: %s -->)" % (key, key), re.S)
        if not pat.search(s):
            print("marker for %s not found" % key)
            continue
        s = pat.sub(lambda m: m.group(1) + fn() + "\n" + m.group(2), s)
    open(p, "w", encoding="utf-8").write(s)
    print("DESIGN.md generated sections updated")


if __name__ == "__main__":
    main()
