#!/venv/bin/python
"""For every repaired defect (a `fixed:` line in KNOWN_FINDINGS.txt): check out /repo's HEAD in a scratch git
worktree under /var/tmp, revert that one fix commit there, and run the property's quick check against it.
The check must report a VIOLATION (the defect is re-detected if it ever returns); the shrunk replay files it
writes are saved as corpus/<ID>/fix-<commit>-<n>.json, the seconds-long regression tier replayed first in
every run.  Results go to mutants/revert_results.json.  /repo itself is never modified."""
import json
import os
import re
import shutil
import subprocess
import sys

HERE = os.path.dirname(os.path.dirname(os.path.abspath(__file__)))


def sh(cmd, **kw):
    return subprocess.run(cmd, capture_output=True, text=True, **kw)


def main():
    only = sys.argv[1:]
    rows = []
    for line in open(os.path.join(HERE, "KNOWN_FINDINGS.txt"), encoding="utf-8"):
        m = re.match(r"fixed: property=(C\d+) (\w+) (.*)", line.strip())
        if m:
            rows.append(m.groups())
    rp = os.path.join(HERE, "mutants", "revert_results.json")
    results = json.load(open(rp)) if os.path.exists(rp) else {}
    for prop, commit, what in rows:
        if only and commit not in only and prop not in only:
            continue
        wt = "/var/tmp/vf-rev-%s" % commit
        sh(["git", "-C", "/repo", "worktree", "remove", "--force", wt])
        r = sh(["git", "-C", "/repo", "worktree", "add", "--detach", wt, "HEAD"])
        if r.returncode != 0:
            print(commit, "worktree failed", r.stderr[-200:])
            continue
        try:
            r = sh(["git", "-C", wt, "revert", "--no-commit", commit])
            if r.returncode != 0:
                results[commit] = {"property": prop, "what": what, "result": "revert conflicts with later fixes (not run)"}
                print("%s %s  revert conflicts" % (prop, commit))
                continue
            env = dict(os.environ, VERIF_REPO=wt)
            env.pop("VF_BOOT", None)
            # the property that found it, plus C06 for findings of the error-family kind
            r = sh([os.path.join(HERE, "check"), prop, "--tier", "quick"], cwd=HERE, env=env)
            verdict = {0: "MISSED", 1: "re-detected", 2: "harness error"}.get(r.returncode, str(r.returncode))
            sigs = [l.split("signature=", 1)[1].split(" count=")[0] for l in r.stdout.splitlines() if l.startswith("FAILURE")]
            results[commit] = {"property": prop, "what": what, "result": verdict, "signatures": sigs[:4]}
            print("%s %s  %s  %s" % (prop, commit, verdict, ", ".join(sigs[:2])[:120]), flush=True)
            if r.returncode == 1:
                rdir = os.path.join(HERE, "replays", prop)
                cdir = os.path.join(HERE, "corpus", prop)
                os.makedirs(cdir, exist_ok=True)
                files = sorted(os.listdir(rdir), key=lambda f: os.path.getsize(os.path.join(rdir, f)))[:2] if os.path.isdir(rdir) else []
                for i, f in enumerate(files):
                    blob = json.load(open(os.path.join(rdir, f)))
                    if len(json.dumps(blob)) > 20000 or "unexpected" in blob.get("case", {}):
                        continue
                    blob["witness_for"] = "fixed: %s %s" % (commit, what)
                    json.dump(blob, open(os.path.join(cdir, "fix-%s-%d.json" % (commit, i)), "w"), indent=1)
        finally:
            sh(["git", "-C", "/repo", "worktree", "remove", "--force", wt])
            shutil.rmtree(wt, ignore_errors=True)
        json.dump(results, open(rp, "w"), indent=1, sort_keys=True)
    sh(["git", "checkout", "--", "evidence"], cwd=HERE)
    shutil.rmtree(os.path.join(HERE, "replays"), ignore_errors=True)
    miss = [c for c, v in results.items() if v["result"] == "MISSED"]
    print("%d fixes, %d missed when reverted: %s" % (len(results), len(miss), miss))


if __name__ == "__main__":
    main()
