#!/bin/sh
# Offline setup: make sure hypothesis is importable by /venv/bin/python (install from the
# local wheelhouse into /verif/.deps if it is not), byte-compile vf/, run model pre-flight.
set -e
cd "$(dirname "$0")"
PY=/venv/bin/python
if ! PYTHONPATH="$PWD/.deps" $PY -c "import hypothesis" 2>/dev/null; then
  /venv/bin/pip install --no-index --find-links /opt/veriftools/wheels --target "$PWD/.deps" hypothesis >/dev/null
fi
if ! PYTHONPATH="$PWD/.deps" $PY -c "import atheris" 2>/dev/null; then
  /venv/bin/pip install --no-index --find-links /opt/veriftools/wheels --target "$PWD/.deps" atheris >/dev/null 2>&1 || echo "setup: atheris not installable (fuzz tier will be skipped)"
fi
$PY -m compileall -q vf >/dev/null
PYTHONPATH="$PWD/.deps:$PWD" $PY -m vf.preflight
echo "setup ok"
